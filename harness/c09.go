package main

// C09: stream decoding equals buffer decoding for every chunking of the input.
//   (1) chunking invariance: for valid and invalid documents and several
//       destination types, Decoder.Decode gives the same verdict, value and
//       input offset however the reader cuts the bytes (every single cut,
//       pairs of cuts for short inputs, fixed piece sizes 1..17, cuts around
//       the 512/1024-byte window boundaries);
//   (2) stream = Unmarshal for documents that are one JSON text;
//   (3) concatenated documents decode to the sequence of the individual ones,
//       with More / InputOffset consistent with the bytes consumed, and the
//       Token sequence equals encoding/json's under every chunking;
//   (4) a reader error other than EOF injected at every byte position is never
//       turned into a successfully decoded value.

import (
	"bytes"
	stdjson "encoding/json"
	"errors"
	"fmt"
	"io"
	"reflect"
	"regexp"
	"sort"
	"strconv"
	"strings"
	"time"
	"unicode/utf8"

	gojson "github.com/goccy/go-json"
)

func init() { props["C09"] = runC09 }

// a reader that delivers the bytes between consecutive cut positions; failAt >= 0 injects an error there.
// The io.Reader contract leaves three more freedoms, each of which the stream decoder meets in its refill code:
// the last bytes may come together with io.EOF (eofWithData), a Read may deliver nothing and no error
// (zeroEvery: every n-th call), and the failure may come together with the last bytes that did arrive (errWithData).
type cutReader struct {
	b           []byte
	cuts        []int // ascending positions in (0, len(b))
	pos         int
	failAt      int
	err         error
	failed      bool // the error has been handed to the caller
	eofWithData bool
	errWithData bool
	zeroEvery   int
	calls       int
}

func (r *cutReader) Read(p []byte) (int, error) {
	if r.zeroEvery > 0 {
		r.calls++
		if r.calls%r.zeroEvery == 0 {
			return 0, nil
		}
	}
	if r.failAt >= 0 && r.pos >= r.failAt {
		r.failed = true
		return 0, r.err
	}
	if r.pos >= len(r.b) {
		return 0, io.EOF
	}
	end := len(r.b)
	for _, c := range r.cuts {
		if c > r.pos {
			end = c
			break
		}
	}
	if end > len(r.b) {
		end = len(r.b)
	}
	if r.failAt >= 0 && end > r.failAt {
		end = r.failAt
	}
	n := copy(p, r.b[r.pos:end])
	r.pos += n
	if r.errWithData && r.failAt >= 0 && r.pos >= r.failAt {
		r.failed = true
		return n, r.err
	}
	if r.eofWithData && r.pos >= len(r.b) {
		return n, io.EOF
	}
	return n, nil
}

// a reader that delivers pieces of one fixed size (0: whatever is asked for), for documents too long for a cut list
type c09SizedReader struct {
	b    []byte
	size int
	pos  int
}

func (r *c09SizedReader) Read(p []byte) (int, error) {
	if r.pos >= len(r.b) {
		return 0, io.EOF
	}
	end := len(r.b)
	if r.size > 0 && r.pos+r.size < end {
		end = r.pos + r.size
	}
	n := copy(p, r.b[r.pos:end])
	r.pos += n
	return n, nil
}

type c09T struct {
	A int                    `json:"a"`
	B string                 `json:"b"`
	C []int                  `json:"c"`
	D map[string]string      `json:"d"`
	E *c09T                  `json:"e"`
	F float64                `json:"f"`
	G bool                   `json:"g"`
	H []byte                 `json:"h"`
	I interface{}            `json:"i"`
	J []c09In                `json:"j"`
	K gojson.RawMessage      `json:"k"`
	L map[string]interface{} `json:"l"`
	M [2]string              `json:"m"`
	N *int                   `json:"n"`
}

type c09In struct {
	X int    `json:"x"`
	Y string `json:"y"`
}

type c09Dest struct {
	name string
	mk   func() interface{}
}

var c09Dests = []c09Dest{
	{"interface", func() interface{} { var x interface{}; return &x }},
	{"struct", func() interface{} { return &c09T{} }},
	{"map", func() interface{} { return &map[string]interface{}{} }},
	{"slice", func() interface{} { return &[]interface{}{} }},
	{"int", func() interface{} { var x int; return &x }},
	{"string", func() interface{} { var x string; return &x }},
	{"float", func() interface{} { var x float64; return &x }},
	{"bool", func() interface{} { var x bool; return &x }},
	{"raw", func() interface{} { return &gojson.RawMessage{} }},
	{"ints", func() interface{} { return &[]int{} }},
	{"strings", func() interface{} { return &map[string]string{} }},
}

// the two snapshots (JSON made by encoding/json) denote the same value once invalid UTF-8 is replaced
func c09SameAfterUTF8Repair(a, b string) bool {
	var x, y interface{}
	if stdjson.Unmarshal([]byte(a), &x) != nil || stdjson.Unmarshal([]byte(b), &y) != nil {
		return false
	}
	p, _ := stdjson.Marshal(x)
	q, _ := stdjson.Marshal(y)
	return bytes.Equal(p, q)
}

func c09Snap(v interface{}) string {
	b, err := stdjson.Marshal(v)
	if err != nil {
		// e.g. a RawMessage that received a text that is not JSON.  The dump follows pointers: %#v prints their
		// addresses, which differ from one decode to the next although the values are the same
		var sb strings.Builder
		c09Dump(&sb, reflect.ValueOf(v), 0)
		return "unmarshalable:" + sb.String()
	}
	return string(b)
}

func c09Dump(sb *strings.Builder, v reflect.Value, depth int) {
	if !v.IsValid() {
		sb.WriteString("nil")
		return
	}
	if depth > 40 {
		sb.WriteString("...")
		return
	}
	switch v.Kind() {
	case reflect.Ptr, reflect.Interface:
		if v.IsNil() {
			sb.WriteString("nil")
			return
		}
		if v.Kind() == reflect.Ptr {
			sb.WriteByte('&')
		}
		c09Dump(sb, v.Elem(), depth+1)
	case reflect.Struct:
		sb.WriteString(v.Type().String() + "{")
		for i := 0; i < v.NumField(); i++ {
			sb.WriteString(v.Type().Field(i).Name + ":")
			c09Dump(sb, v.Field(i), depth+1)
			sb.WriteByte(' ')
		}
		sb.WriteByte('}')
	case reflect.Slice, reflect.Array:
		if v.Kind() == reflect.Slice && v.IsNil() {
			sb.WriteString("nil")
			return
		}
		if v.Type().Elem().Kind() == reflect.Uint8 {
			b := make([]byte, v.Len())
			for i := range b {
				b[i] = byte(v.Index(i).Uint())
			}
			fmt.Fprintf(sb, "%q", b)
			return
		}
		sb.WriteByte('[')
		for i := 0; i < v.Len(); i++ {
			c09Dump(sb, v.Index(i), depth+1)
			sb.WriteByte(' ')
		}
		sb.WriteByte(']')
	case reflect.Map:
		if v.IsNil() {
			sb.WriteString("nil")
			return
		}
		var ks []string
		m := map[string]reflect.Value{}
		for _, k := range v.MapKeys() {
			var kb strings.Builder
			c09Dump(&kb, k, depth+1)
			ks = append(ks, kb.String())
			m[kb.String()] = v.MapIndex(k)
		}
		sort.Strings(ks)
		sb.WriteString("map[")
		for _, k := range ks {
			sb.WriteString(k + ":")
			c09Dump(sb, m[k], depth+1)
			sb.WriteByte(' ')
		}
		sb.WriteByte(']')
	case reflect.String:
		fmt.Fprintf(sb, "%q", v.String())
	case reflect.Bool:
		fmt.Fprint(sb, v.Bool())
	case reflect.Int, reflect.Int8, reflect.Int16, reflect.Int32, reflect.Int64:
		fmt.Fprint(sb, v.Int())
	case reflect.Uint, reflect.Uint8, reflect.Uint16, reflect.Uint32, reflect.Uint64, reflect.Uintptr:
		fmt.Fprint(sb, v.Uint())
	case reflect.Float32, reflect.Float64:
		sb.WriteString(strconv.FormatFloat(v.Float(), 'g', -1, 64))
	default:
		sb.WriteString(v.Kind().String())
	}
}

type c09Res struct {
	ok     bool
	snap   string
	offset int64
	panicd string
}

func (r c09Res) String() string {
	if r.panicd != "" {
		return "PANIC " + r.panicd
	}
	if !r.ok {
		return "reject"
	}
	return "accept " + r.snap + " @" + strconv.FormatInt(r.offset, 10)
}

func c09Stream(doc []byte, d c09Dest, cuts []int) (res c09Res) {
	return c09StreamMode(doc, d, cuts, 0)
}

var c09ReaderModes = []string{"plain", "last bytes with io.EOF", "empty reads between the pieces", "empty reads and last bytes with io.EOF"}

// mode selects among the reader's freedoms beyond the cuts (c09ReaderModes)
func c09StreamMode(doc []byte, d c09Dest, cuts []int, mode int) (res c09Res) {
	defer func() {
		if rec := recover(); rec != nil {
			res = c09Res{panicd: fmt.Sprint(rec)}
		}
	}()
	v := d.mk()
	rd := &cutReader{b: doc, cuts: cuts, failAt: -1}
	switch mode {
	case 1:
		rd.eofWithData = true
	case 2:
		rd.zeroEvery = 2
	case 3:
		rd.eofWithData, rd.zeroEvery = true, 3
	}
	dec := gojson.NewDecoder(rd)
	if err := dec.Decode(v); err != nil {
		return c09Res{}
	}
	return c09Res{ok: true, snap: c09Snap(v), offset: dec.InputOffset()}
}

func c09Buffer(doc []byte, d c09Dest) (res c09Res) {
	defer func() {
		if rec := recover(); rec != nil {
			res = c09Res{panicd: fmt.Sprint(rec)}
		}
	}()
	v := d.mk()
	if err := gojson.Unmarshal(doc, v); err != nil {
		return c09Res{}
	}
	return c09Res{ok: true, snap: c09Snap(v)}
}

// the open findings of C05 about texts that are not JSON, as they show when the two modes are compared: a predicate
// on the document and the destination only
func c09KnownInvalid(doc []byte, stdValid bool, dest string, streamOK, bufOK bool) string {
	if stdValid {
		return ""
	}
	if bytes.IndexByte(doc, '\\') < 0 && bytes.IndexByte(doc, 0) < 0 {
		if dest == "struct" && streamOK && !bufOK {
			return "SkipUnvalidated" // an unknown member stepped over without validation
		}
		return ""
	}
	switch dest {
	case "struct":
		if bufOK && !streamOK {
			return "StructKeyUnvalidated"
		}
		return "StreamStructKeyLenient"
	case "raw":
		return "StreamSkipScannerLenient"
	}
	return ""
}

// two results of the Decoder that differ by the given number of bytes consumed and by nothing else
func c09SameButOffset(a, b c09Res, by int64) bool {
	return a.ok && b.ok && a.panicd == "" && b.panicd == "" && a.snap == b.snap && a.offset+by == b.offset
}

// the text without the one ',' or ':' it begins with (behind white space); nil when it begins with something else
func c09SeparatorDropped(doc []byte) []byte {
	i := 0
	for i < len(doc) && (doc[i] == ' ' || doc[i] == '\t' || doc[i] == '\n' || doc[i] == '\r') {
		i++
	}
	if i < len(doc) && (doc[i] == ',' || doc[i] == ':') {
		return append(append([]byte{}, doc[:i]...), doc[i+1:]...)
	}
	return nil
}

// the chunkings of the quantifier for a document of n bytes
func c09Chunkings(o *Out, n int, heavy bool) [][]int {
	var res [][]int
	res = append(res, nil) // one piece
	for size := 1; size <= 17; size++ {
		var c []int
		for p := size; p < n; p += size {
			c = append(c, p)
		}
		res = append(res, c)
	}
	if n <= 260 || heavy {
		for p := 1; p < n; p++ {
			res = append(res, []int{p})
		}
	} else {
		for k := 0; k < 40; k++ {
			res = append(res, []int{1 + o.rng.Intn(n-1)})
		}
	}
	if n <= 26 {
		for p := 1; p < n; p++ {
			for q := p + 1; q < n; q++ {
				res = append(res, []int{p, q})
			}
		}
	} else {
		for k := 0; k < 30; k++ {
			p := 1 + o.rng.Intn(n-1)
			q := 1 + o.rng.Intn(n-1)
			if p > q {
				p, q = q, p
			}
			if p != q {
				res = append(res, []int{p, q})
			}
		}
	}
	for _, b := range []int{511, 512, 513, 1023, 1024, 1025, 1535, 1536, 2047, 2048} {
		for _, d := range []int{-1, 0, 1} {
			if p := b + d; p > 0 && p < n {
				res = append(res, []int{p})
				if p+1 < n {
					res = append(res, []int{p, p + 1})
				}
			}
		}
	}
	return res
}

func c09Long(r interface{ Intn(int) int }) []string {
	// documents whose interesting bytes sit around the 512 / 1024 byte window boundaries
	var res []string
	for _, target := range []int{500, 505, 509, 510, 511, 512, 513, 1020, 1023, 1024, 1030} {
		pad := strings.Repeat("x", target-8)
		res = append(res,
			`{"b":"`+pad+`\né😀tail","a":12345,"c":[1,2,3],"g":true,"n":null}`,
			`["`+pad+`",-12.5e3,{"k":"v\"q"},false,null,"😀"]`,
			strings.Repeat(" ", target-3)+`{"a":-98765,"f":1.25,"e":{"b":"in\\ner"}}`,
			`{"a":1,"unknown":[`+strings.Repeat("1,", (target-20)/2)+`1],"b":"after skip","c":[7]}`,
			`{"l":{"`+pad+`":1},"m":["p","q"],"k": {"raw" : [1, 2]} }`)
	}
	return res
}

func runC09(o *Out) {
	r := o.rng
	thorough := o.tier == "thorough"
	var docs []string
	docs = append(docs, corpusDocs...)
	ng := 120
	if thorough {
		ng = 1500
	}
	for i := 0; i < ng; i++ {
		docs = append(docs, genDoc(r, 3))
	}
	// documents shaped for the struct destination
	for i := 0; i < ng/2; i++ {
		var parts []string
		for _, f := range []string{`"a":` + genNumbers[r.Intn(len(genNumbers))], `"b":` + genStrings[r.Intn(len(genStrings))], `"c":[1, 2 ,3]`, `"d":{"k":` + genStrings[r.Intn(len(genStrings))] + `}`,
			`"e":{"a":7,"b":"nested"}`, `"f":` + genNumbers[r.Intn(len(genNumbers))], `"g":true`, `"h":"AQID"`, `"i":` + genValue(r, 2), `"j":[{"x":1,"y":"one"},{"x":2}]`,
			`"k": {"r":[1,{}]}`, `"l":{"p":null,"q":[true]}`, `"m":["u","v"]`, `"n":5`, `"zz":` + genValue(r, 2), `"n":null`} {
			if r.Intn(3) != 0 {
				parts = append(parts, f)
			}
		}
		r.Shuffle(len(parts), func(i, j int) { parts[i], parts[j] = parts[j], parts[i] })
		docs = append(docs, "{"+genWS(r)+strings.Join(parts, genWS(r)+","+genWS(r))+genWS(r)+"}"+genWS(r))
	}
	docs = append(docs, c09Long(r)...)
	// object keys that match no field and end in an escape: every cut position matters
	docs = append(docs, `{"[\"":{"é":false},"k":null,"a":5}`, `{"0\\": 1E+2 , "a":7  }`, `{"x\u0022":[1],"\\\"":2,"b":"z\""}`, `{"unknown\\\\":{"\"":"\\"},"c":[1]}`)
	// invalid neighbours
	nmut := 0
	for _, d := range docs[:len(docs):len(docs)] {
		if len(d) > 120 || nmut > 400 && !thorough {
			continue
		}
		mutations(d, alphabet27, 7, func(m string) {
			if r.Intn(6) == 0 {
				docs = append(docs, m)
				nmut++
			}
		})
	}
	o.count("documents", int64(len(docs)))
	classes := map[string]int64{}
	for di, ds := range docs {
		doc := []byte(ds)
		if len(doc) == 0 {
			continue
		}
		// which destinations: all for short documents, three otherwise
		dests := c09Dests
		if len(doc) > 64 {
			dests = []c09Dest{c09Dests[0], c09Dests[1], c09Dests[2+r.Intn(len(c09Dests)-2)]}
		}
		chunkings := c09Chunkings(o, len(doc), thorough && len(doc) <= 2000)
		stdValid := stdjson.Valid(doc)
		for _, d := range dests {
			o.current(map[string]string{"property": "C09", "doc": clip(ds), "doc_hex": hx(doc), "dest": d.name})
			whole := c09Stream(doc, d, nil)
			if whole.panicd != "" {
				o.violation("C09", "panic in stream decoding", map[string]string{"doc": clip(ds), "doc_hex": hx(doc), "dest": d.name, "panic": whole.panicd})
				continue
			}
			o.count("stream_decodes", 1)
			if whole.ok {
				o.hist("one_piece_verdict", "accept")
			} else {
				o.hist("one_piece_verdict", "reject")
			}
			// (1) chunking invariance
			reported := false
			for _, cuts := range chunkings {
				if cuts == nil {
					continue
				}
				got := c09Stream(doc, d, cuts)
				o.count("stream_decodes", 1)
				if got != whole && !reported {
					reported = true
					if cls := c09KnownInvalid(doc, stdValid, d.name, got.ok, whole.ok); cls != "" {
						o.known(cls, fmt.Sprintf("%q into %s, cuts %v", ds, d.name, cuts))
						continue
					}
					o.violation("C09", "Decoder.Decode depends on how the reader cuts the input", map[string]string{
						"doc": clip(ds), "doc_hex": hx(doc), "dest": d.name, "cuts": fmt.Sprint(cuts), "one_piece": clip(whole.String()), "with_cuts": clip(got.String())})
				}
			}
			// (1b) the reader's other freedoms (last bytes together with io.EOF, reads that deliver nothing) on some of the same chunkings
			for mode := 1; mode < len(c09ReaderModes); mode++ {
				cuts := chunkings[(di*31+mode*7)%len(chunkings)]
				got := c09StreamMode(doc, d, cuts, mode)
				o.count("stream_decodes", 1)
				o.hist("reader_protocol", c09ReaderModes[mode])
				if got != whole && !reported {
					reported = true
					if cls := c09KnownInvalid(doc, stdValid, d.name, got.ok, whole.ok); cls != "" {
						o.known(cls, fmt.Sprintf("%q into %s, cuts %v, reader: %s", ds, d.name, cuts, c09ReaderModes[mode]))
						continue
					}
					o.violation("C09", "Decoder.Decode depends on how the reader delivers the input ("+c09ReaderModes[mode]+")", map[string]string{
						"doc": clip(ds), "doc_hex": hx(doc), "dest": d.name, "cuts": fmt.Sprint(cuts), "reader": c09ReaderModes[mode], "one_piece": clip(whole.String()), "with_cuts": clip(got.String())})
				}
			}
			// (2) stream = buffer when the document is one JSON text (no second value behind it)
			buf := c09Buffer(doc, d)
			if buf.panicd != "" {
				continue // C06's business
			}
			if stdValid {
				if whole.ok != buf.ok || (whole.ok && whole.snap != buf.snap) {
					switch {
					case whole.ok && buf.ok && !utf8.Valid(doc) && c09SameAfterUTF8Repair(whole.snap, buf.snap):
						// recorded finding: Unmarshal keeps invalid UTF-8 bytes of a string, the Decoder (like encoding/json) replaces them
						o.known("BufferKeepsInvalidUTF8", fmt.Sprintf("%q into %s", ds, d.name))
					default:
						o.violation("C09", "Decoder.Decode and Unmarshal disagree on a valid document", map[string]string{
							"doc": clip(ds), "doc_hex": hx(doc), "dest": d.name, "stream": clip(whole.String()), "buffer": clip(buf.String())})
					}
				}
				o.count("valid_stream_vs_buffer", 1)
			} else if whole.ok != buf.ok {
				// the first value of an invalid text may be complete: the Decoder is entitled to it, Unmarshal is not
				var sv interface{}
				sdec := stdjson.NewDecoder(bytes.NewReader(doc))
				serr := sdec.Decode(&sv)
				switch {
				case whole.ok && !buf.ok && serr == nil:
					classes["first value of a longer text (as encoding/json)"]++
				case whole.ok && !buf.ok && d.name == "int":
					o.known("StreamIntegerPrefix", fmt.Sprintf("%q into int", ds))
				case whole.ok && !buf.ok && d.name == "raw":
					// C05's SkipUnvalidated: the skip scanners behind RawMessage accept some invalid values in both modes;
					// Unmarshal then rejects only because of what follows
					o.known("RawSkipUnvalidated", fmt.Sprintf("%q into RawMessage", ds))
				case c09KnownInvalid(doc, stdValid, d.name, whole.ok, buf.ok) != "":
					o.known(c09KnownInvalid(doc, stdValid, d.name, whole.ok, buf.ok), fmt.Sprintf("%q into %s", ds, d.name))
				case whole.ok && !buf.ok && c09SeparatorDropped(doc) != nil && c09SameButOffset(c09Stream(c09SeparatorDropped(doc), d, nil), whole, 1):
					// C05's StreamLeadingSeparator: the Decoder steps over one ',' or ':' in front of a value (pinned by the suite);
					// the text without that byte fares the same in stream mode
					o.known("StreamLeadingSeparator", fmt.Sprintf("%q into %s", ds, d.name))
				case whole.ok && !buf.ok:
					o.violation("C09", "Decoder.Decode accepts the beginning of an invalid text that neither Unmarshal nor encoding/json's Decoder accept", map[string]string{
						"doc": clip(ds), "doc_hex": hx(doc), "dest": d.name, "stream": clip(whole.String())})
				default:
					o.violation("C09", "Decoder.Decode rejects a text that Unmarshal accepts", map[string]string{
						"doc": clip(ds), "doc_hex": hx(doc), "dest": d.name})
				}
			}
			// (4) reader failure at every byte position
			if di%3 == 0 || len(doc) < 40 {
				injected := errors.New("injected reader failure")
				step := 1
				if len(doc) > 200 {
					step = len(doc) / 100
				}
				for q := 0; q <= 2*len(doc)+1; q++ {
					// every position (of the stride) with an error that comes alone; every third of them also with an
					// error that comes together with the last bytes delivered
					p, together := q/2, q%2 == 1
					if p%step != 0 || together && (p == 0 || (p/step+di)%3 != 0) {
						continue
					}
					var sv interface{} = d.mk()
					sdec := stdjson.NewDecoder(&cutReader{b: doc, failAt: p, err: injected, errWithData: together})
					serr := sdec.Decode(sv)
					gv := d.mk()
					gr := &cutReader{b: doc, failAt: p, err: injected, errWithData: together}
					gdec := gojson.NewDecoder(gr)
					var gerr error
					func() {
						defer func() {
							if rec := recover(); rec != nil {
								gerr = fmt.Errorf("panic: %v", rec)
							}
						}()
						gerr = gdec.Decode(gv)
					}()
					o.count("reader_failures_injected", 1)
					if together {
						o.count("reader_failures_injected_with_data", 1)
					}
					// the library asked for more input, was told the reader failed, and still reported success
					if gerr == nil && gr.failed && serr != nil && errors.Is(serr, injected) {
						o.violation("C09", "a reader error was turned into a successfully decoded value", map[string]string{
							"doc": clip(ds), "doc_hex": hx(doc), "dest": d.name, "reader_fails_after_bytes": strconv.Itoa(p), "error_together_with_the_last_bytes": strconv.FormatBool(together), "decoded": clip(c09Snap(gv))})
						break
					}
					if gerr != nil && errors.Is(gerr, injected) {
						o.count("reader_error_passed_through", 1)
					} else if gerr != nil {
						o.count("reader_error_reported_as_other_error", 1)
					}
				}
			}
		}
	}
	var ks []string
	for k := range classes {
		ks = append(ks, k)
	}
	sort.Strings(ks)
	for _, k := range ks {
		o.Stats["invalid: "+k] = classes[k]
	}
	c09Sequences(o, docs)
	c09BoolCases(o)
	c09WindowSweep(o)
	c09TokenFailures(o, docs)
	c09Walks(o, docs)
	c09TypedDests(o)
	c09SequenceWindows(o)
	c09LongStreams(o)
	c09SequenceFailures(o)
	c09LargeDocs(o)
}

// every byte of a document on every side of the boundaries at which the stream buffer is refilled and moved to a
// larger allocation (512, 1024): the document is shifted by leading white space, the reader fills every request
// completely (which is what makes the next refill reallocate) or stops one byte short of it
func c09WindowSweep(o *Out) {
	docs := []string{
		`{"\u0061":-12345,"b":"x\ny\u00e9\ud83d\ude00z","\u0063":[1,22,333],"d":{"k\"q":"v"},"g":true,"n":null}`,
		`{"e":{"\u0061":7,"\u0062":"in\\ner","e":{"a":1}},"f":-1.25e+3,"h":"AQIDBA==","\u006a":[{"x":1,"y":"one"},{"\u0078":2}]}`,
		`{"unknown\u0020key":{"deep":[1,{"x":"\u0041"}]},"a":5,"m":["p\tq","r"],"k": {"raw" : [1, 2]} ,"l":{"p":null}}`,
		`{"i":[true,false,null,"s\u0000t",1e2,{"\ud834\udd1e":"\ud834\udd1e"}],"A":9,"\u0042":"case"}`,
		`["\u0061\\",-0.5,{"\u006b":"v\"q"},false,null,"\ud83d\ude00",[[]],{}]`,
		`"plain \u00e9 \ud83d\ude00 \"quoted\" \\ tail"`,
		`-123456789012345678`,
		`123456.789e-3`,
		`{"d":{"\u0041\u0042":"ab","\u00e9":"\u00e9","x\/y":"z"},"c":[-1,0,1]}`,
	}
	windows := []int{512, 1024}
	if o.tier == "thorough" {
		windows = append(windows, 2048, 4096)
	}
	for _, ds := range docs {
		for _, w := range windows {
			for k := -2; k <= len(ds)+2; k++ {
				pad := w - k
				if pad < 0 {
					continue
				}
				doc := []byte(strings.Repeat(" ", pad) + ds)
				for _, d := range []c09Dest{c09Dests[0], c09Dests[1], c09Dests[2], c09Dests[3], c09Dests[5], c09Dests[6], c09Dests[8]} {
					buf := c09Buffer(doc, d)
					if buf.panicd != "" {
						continue
					}
					o.current(map[string]string{"property": "C09", "doc": clip(ds), "leading_spaces": strconv.Itoa(pad), "dest": d.name})
					for _, cuts := range [][]int{nil, {w - 1}, {w - 1, 2*w - 2}} {
						for len(cuts) > 0 && cuts[len(cuts)-1] >= len(doc) {
							cuts = cuts[:len(cuts)-1]
						}
						got := c09Stream(doc, d, cuts)
						o.count("window_sweep_decodes", 1)
						if got.panicd != "" || got.ok != buf.ok || (got.ok && got.snap != buf.snap) {
							o.violation("C09", "Decoder.Decode and Unmarshal disagree when a token crosses a refill of the stream buffer", map[string]string{
								"doc": ds, "leading_spaces": strconv.Itoa(pad), "dest": d.name, "cuts": fmt.Sprint(cuts), "stream": clip(got.String()), "buffer": clip(buf.String())})
							break
						}
					}
				}
			}
		}
	}
}

// model correspondence: the lifted scanner instance for a *bool destination, on the same chunkings
func c09BoolCases(o *Out) {
	var docs [][]byte
	enumStrings([]byte("truefalsn \n\tx,"), 0, func([]byte) {})
	for _, w := range []string{"true", "false", "null", " true", "\n\tfalse ", "  null\r", "tru", "t", "fals", "nul", "truE", "trux", "ttrue", "true true", "falsefalse", "nulll", "", " ", "x", ",true", "true,", "nil", "fal se", "\ttrue\n\n", "n", "f", "truetrue", "null,null"} {
		docs = append(docs, []byte(w))
	}
	alpha := []byte("truefalsn x")
	for i := 0; i < 300; i++ {
		n := 1 + o.rng.Intn(7)
		b := make([]byte, n)
		for j := range b {
			b[j] = alpha[o.rng.Intn(len(alpha))]
		}
		docs = append(docs, b)
	}
	for _, doc := range docs {
		var cutsets [][]int
		cutsets = append(cutsets, nil)
		for p := 1; p < len(doc); p++ {
			cutsets = append(cutsets, []int{p})
			for q := p + 1; q < len(doc); q++ {
				cutsets = append(cutsets, []int{p, q})
			}
		}
		if len(doc) > 1 {
			var all []int
			for p := 1; p < len(doc); p++ {
				all = append(all, p)
			}
			cutsets = append(cutsets, all)
		}
		for _, cuts := range cutsets {
			b := true
			marker := b
			dec := gojson.NewDecoder(&cutReader{b: doc, cuts: cuts, failAt: -1})
			var res string
			func() {
				defer func() {
					if rec := recover(); rec != nil {
						res = "PANIC"
					}
				}()
				// decode twice with different initial values to tell null (destination untouched) from a value
				err := dec.Decode(&b)
				if err != nil {
					res = "R"
					return
				}
				off := dec.InputOffset()
				b2 := false
				dec2 := gojson.NewDecoder(&cutReader{b: doc, cuts: cuts, failAt: -1})
				dec2.Decode(&b2)
				switch {
				case b == marker && b2 == false:
					res = "A null @" + strconv.FormatInt(off, 10)
				case b:
					res = "A true @" + strconv.FormatInt(off, 10)
				default:
					res = "A false @" + strconv.FormatInt(off, 10)
				}
			}()
			var cs []string
			for _, c := range cuts {
				cs = append(cs, strconv.Itoa(c))
			}
			o.emit("A", "c09.bool", [][]byte{doc, []byte(strings.Join(cs, " "))}, []byte(res), nil, false)
			o.count("bool_scanner_cases", 1)
		}
	}
}

// (3) concatenated documents, More, InputOffset, Token
func c09Sequences(o *Out, docs []string) {
	r := o.rng
	var valid []string
	for _, d := range docs {
		var probe interface{}
		if stdjson.Valid([]byte(d)) && len(d) < 400 && gojson.Unmarshal([]byte(d), &probe) == nil {
			valid = append(valid, d)
		}
	}
	nseq := 150
	if o.tier == "thorough" {
		nseq = 2500
	}
	for s := 0; s < nseq; s++ {
		k := 1 + r.Intn(6)
		var stream []byte
		var parts []string
		var ends []int
		for i := 0; i < k; i++ {
			d := valid[r.Intn(len(valid))]
			parts = append(parts, d)
			stream = append(stream, d...)
			// numbers and literals need a separator; put one everywhere
			stream = append(stream, []string{" ", "\n", "\t\n", "  "}[r.Intn(4)]...)
			ends = append(ends, len(stream))
		}
		var cuts []int
		switch r.Intn(4) {
		case 0:
		case 1:
			sz := 1 + r.Intn(17)
			for p := sz; p < len(stream); p += sz {
				cuts = append(cuts, p)
			}
		default:
			for i := 0; i < 1+r.Intn(4); i++ {
				cuts = append(cuts, 1+r.Intn(len(stream)))
			}
			sort.Ints(cuts)
		}
		o.current(map[string]string{"property": "C09", "stream": clip(string(stream)), "stream_hex": hx(stream), "cuts": fmt.Sprint(cuts)})
		gdec := gojson.NewDecoder(&cutReader{b: stream, cuts: cuts, failAt: -1})
		sdec := stdjson.NewDecoder(&cutReader{b: stream, cuts: cuts, failAt: -1})
		det := map[string]string{"stream": clip(string(stream)), "stream_hex": hx(stream), "cuts": fmt.Sprint(cuts)}
		bad := false
		for i := 0; i < k && !bad; i++ {
			if gm, sm := gdec.More(), sdec.More(); gm != sm {
				det["index"] = strconv.Itoa(i)
				o.violation("C09", fmt.Sprintf("More() = %v before document %d of %d (encoding/json: %v)", gm, i, k, sm), det)
				bad = true
				break
			}
			var gv, sv, bv interface{}
			gerr := gdec.Decode(&gv)
			serr := sdec.Decode(&sv)
			berr := gojson.Unmarshal([]byte(parts[i]), &bv)
			if gerr == nil && berr == nil && serr == nil && c09Snap(gv) != c09Snap(bv) && !utf8.Valid([]byte(parts[i])) && c09SameAfterUTF8Repair(c09Snap(gv), c09Snap(bv)) {
				o.known("BufferKeepsInvalidUTF8", fmt.Sprintf("%q in a stream", parts[i]))
			} else if gerr != nil || serr != nil || berr != nil || c09Snap(gv) != c09Snap(bv) {
				det["index"] = strconv.Itoa(i)
				det["got"], det["want"] = clip(c09Snap(gv)), clip(c09Snap(bv))
				det["err"] = fmt.Sprint(gerr)
				o.violation("C09", "a stream of concatenated documents does not decode to the sequence of the individual documents", det)
				bad = true
				break
			}
			off := gdec.InputOffset()
			lo := int64(prevEnd(ends, i) + len(strings.TrimRight(parts[i], " \t\r\n"))) // end of the value itself
			hi := int64(ends[i])
			if i+1 < k {
				hi = int64(ends[i]) + int64(len(parts[i+1])-len(strings.TrimLeft(parts[i+1], " \t\r\n")))
			}
			if off < lo || off > hi {
				det["index"] = strconv.Itoa(i)
				o.violation("C09", fmt.Sprintf("InputOffset() = %d after document %d, outside [%d,%d] (end of the value .. start of the next)", off, i, lo, hi), det)
				bad = true
			}
			o.count("sequence_documents", 1)
		}
		if !bad {
			if gm, sm := gdec.More(), sdec.More(); gm != sm {
				o.violation("C09", fmt.Sprintf("More() = %v after the last document (encoding/json: %v)", gm, sm), det)
			}
			var x interface{}
			if err := gdec.Decode(&x); err != io.EOF {
				det["err"] = fmt.Sprint(err)
				o.violation("C09", "Decode after the last document does not return io.EOF", det)
			}
		}
		// tokens of the first document under the same cuts
		d0 := []byte(parts[0])
		var c0 []int
		for _, c := range cuts {
			if c < len(d0) {
				c0 = append(c0, c)
			}
		}
		gt := c09Tokens(func() (interface{}, error) { return nil, nil }, d0, c0, true)
		st := c09Tokens(nil, d0, c0, false)
		o.count("token_sequences", 1)
		if gt != st {
			o.violation("C09", "Token() sequence differs from encoding/json's", map[string]string{"doc": clip(parts[0]), "doc_hex": hx(d0), "cuts": fmt.Sprint(c0), "got": clip(gt), "want": clip(st)})
		}
	}
}

func prevEnd(ends []int, i int) int {
	if i == 0 {
		return 0
	}
	return ends[i-1]
}

func c09Tokens(_ func() (interface{}, error), doc []byte, cuts []int, goj bool) (res string) {
	defer func() {
		if rec := recover(); rec != nil {
			res += " PANIC " + fmt.Sprint(rec)
		}
	}()
	var sb strings.Builder
	next := func() (interface{}, error) { return nil, io.EOF }
	if goj {
		dec := gojson.NewDecoder(&cutReader{b: doc, cuts: cuts, failAt: -1})
		next = func() (interface{}, error) { t, err := dec.Token(); return t, err }
	} else {
		dec := stdjson.NewDecoder(&cutReader{b: doc, cuts: cuts, failAt: -1})
		next = func() (interface{}, error) { t, err := dec.Token(); return t, err }
	}
	for i := 0; i < 10000; i++ {
		t, err := next()
		if err == io.EOF {
			sb.WriteString(" EOF")
			break
		}
		if err != nil {
			sb.WriteString(" ERR")
			break
		}
		fmt.Fprintf(&sb, " %T:%v", t, t)
	}
	s := sb.String()
	s = strings.ReplaceAll(s, "json.Delim", "Delim")
	return s
}

// ---------------------------------------------------------------------------------------------------------------
// Strata added by the audit of the quantifier (destination types of C02, options, entry points and call sequences,
// window boundaries behind a reset, document sizes, reader failures seen through Token).

// findings of the audit of this harness (Token under a failing reader, white space before a value handed to the
// Unmarshaler an interface holds); both were repaired in /repo (8798920, 51bcef6): a violation like any other
func c09Open(o *Out, tag, what string, detail map[string]string) {
	detail["stratum"] = tag
	o.violation("C09", what, detail)
}

// the two decoders behind one interface (gojson.Token is an alias of encoding/json's)
type c09TokenDecoder interface {
	Token() (stdjson.Token, error)
	More() bool
	Decode(interface{}) error
	InputOffset() int64
	UseNumber()
}

func c09NewDecoder(goj bool, r io.Reader) c09TokenDecoder {
	if goj {
		return gojson.NewDecoder(r)
	}
	return stdjson.NewDecoder(r)
}

// every single cut (sampled above `full` bytes), every pair of cuts up to 24 bytes, every byte its own piece, pieces
// of 2, 3 and 5 bytes
func c09SmallChunkings(o *Out, n, full int) [][]int {
	res := [][]int{nil}
	if n <= 24 {
		for p := 1; p < n; p++ {
			for q := p + 1; q < n; q++ {
				res = append(res, []int{p, q})
			}
		}
	}
	if n <= full {
		for p := 1; p < n; p++ {
			res = append(res, []int{p})
		}
	} else {
		for k := 0; k < 24; k++ {
			res = append(res, []int{1 + o.rng.Intn(n-1)})
		}
	}
	for _, size := range []int{1, 2, 3, 5} {
		var c []int
		for p := size; p < n; p += size {
			c = append(c, p)
		}
		if len(c) > 0 {
			res = append(res, c)
		}
	}
	return res
}

// (4b) Token under a failing reader.  What Token hands out before its first error must be the beginning of the token
// sequence of the whole document (a number cut short by the failure is not a token of the document), and the error
// that ends the sequence must not be io.EOF -- "the input ended here, cleanly" -- when the reader said otherwise.
func c09TokenFailures(o *Out, docs []string) {
	injected := errors.New("injected reader failure")
	tokens := func(dec c09TokenDecoder) (toks []string, last error) {
		defer func() {
			if rec := recover(); rec != nil {
				last = fmt.Errorf("panic: %v", rec)
			}
		}()
		for i := 0; i < 10000; i++ {
			t, err := dec.Token()
			if err != nil {
				return toks, err
			}
			toks = append(toks, fmt.Sprintf("%T:%v", t, t))
		}
		return toks, errors.New("no end")
	}
	fixed := []string{`[123,456]`, `{"key":"value","n":-12.5e3}`, `[true,false,null]`, ` [ "a\nb" , {"k":[10]} ] `, `12345`, `"string"`, `{"a":{"b":[1,22,333]}} `, `1.5`, `[0.25]`, `-7`}
	n := 60
	if o.tier == "thorough" {
		n = 1000
	}
	for i := 0; i < len(docs) && len(fixed) < n; i++ {
		d := docs[(i*7)%len(docs)]
		if len(d) > 0 && len(d) <= 80 && utf8.ValidString(d) && stdjson.Valid([]byte(d)) {
			fixed = append(fixed, d)
		}
	}
	for _, ds := range fixed {
		doc := []byte(ds)
		full, ferr := tokens(stdjson.NewDecoder(bytes.NewReader(doc)))
		if ferr != io.EOF {
			continue
		}
		if gfull, gerr := tokens(gojson.NewDecoder(bytes.NewReader(doc))); gerr != io.EOF || strings.Join(gfull, " ") != strings.Join(full, " ") {
			continue // c09Sequences compares the token sequences of readers that do not fail
		}
		o.current(map[string]string{"property": "C09", "doc": ds, "entry": "Token", "note": "the reader fails after one of the bytes of this document"})
		for p := 0; p < len(doc); p++ {
			for t := 0; t < 2; t++ {
				if t == 1 && p == 0 {
					continue
				}
				rd := &cutReader{b: doc, failAt: p, err: injected, errWithData: t == 1}
				got, gerr := tokens(gojson.NewDecoder(rd))
				std, serr := tokens(stdjson.NewDecoder(&cutReader{b: doc, failAt: p, err: injected, errWithData: t == 1}))
				o.count("token_reader_failures_injected", 1)
				det := map[string]string{"doc": ds, "doc_hex": hx(doc), "entry": "Token", "reader_fails_after_bytes": strconv.Itoa(p), "error_together_with_the_last_bytes": strconv.FormatBool(t == 1),
					"tokens": strings.Join(got, " "), "error": fmt.Sprint(gerr), "encoding/json_tokens": strings.Join(std, " "), "encoding/json_error": fmt.Sprint(serr), "tokens_of_the_document": strings.Join(full, " ")}
				if strings.HasPrefix(fmt.Sprint(gerr), "panic") {
					o.violation("C09", "panic in Token after a reader failure", det)
					continue
				}
				prefix := len(got) <= len(full)
				for i := 0; prefix && i < len(got); i++ {
					prefix = got[i] == full[i]
				}
				switch {
				case !prefix:
					o.hist("token_after_reader_failure", "a token cut short by the failure is returned")
					c09Open(o, "TokenTruncatedByReaderError", "a reader error was turned into a successfully returned token: Token returns a number the failure cut short", det)
				case rd.failed && gerr == io.EOF && len(got) < len(full):
					o.hist("token_after_reader_failure", "io.EOF instead of the reader's error")
					c09Open(o, "TokenSwallowsReaderError", "the reader failed before the end of the document and Token reports a clean end of input (io.EOF) instead of the reader's error", det)
				case errors.Is(gerr, injected):
					o.hist("token_after_reader_failure", "the reader's error")
				default:
					o.hist("token_after_reader_failure", "another error")
				}
			}
		}
	}
}

// (3b) the canonical streaming loop -- Token for the opening bracket, More/Decode for the members (Token for the keys),
// Token for the closing bracket, to a chosen depth -- against encoding/json under every chunking: values, the
// token sequence and InputOffset after every step.
func c09Walk(d c09TokenDecoder, decodeAt int, depth int, elem func() interface{}, sb *strings.Builder) bool {
	t, err := d.Token()
	if err != nil {
		fmt.Fprintf(sb, " ERR(eof=%v)", err == io.EOF)
		return false
	}
	fmt.Fprintf(sb, " %T:%v@%d", t, t, d.InputOffset())
	dl, ok := t.(stdjson.Delim)
	if !ok || (dl != '[' && dl != '{') {
		return true
	}
	for steps := 0; d.More(); steps++ {
		if steps > 100000 {
			sb.WriteString(" NO-END")
			return false
		}
		if dl == '{' {
			k, err := d.Token()
			if err != nil {
				sb.WriteString(" KEY-ERR")
				return false
			}
			fmt.Fprintf(sb, " key %T:%v@%d", k, k, d.InputOffset())
		}
		if depth+1 >= decodeAt {
			v := elem()
			if err := d.Decode(v); err != nil {
				sb.WriteString(" DECODE-ERR")
				return false
			}
			fmt.Fprintf(sb, " val %s@%d", c09Snap(v), d.InputOffset())
		} else if !c09Walk(d, decodeAt, depth+1, elem, sb) {
			return false
		}
	}
	t, err = d.Token()
	if err != nil {
		sb.WriteString(" CLOSE-ERR")
		return false
	}
	fmt.Fprintf(sb, " %T:%v@%d", t, t, d.InputOffset())
	return true
}

func c09RunWalk(goj bool, doc []byte, cuts []int, mode int, useNumber bool, decodeAt int, elem func() interface{}) (res string) {
	defer func() {
		if rec := recover(); rec != nil {
			res += " PANIC " + fmt.Sprint(rec)
		}
	}()
	rd := &cutReader{b: doc, cuts: cuts, failAt: -1}
	switch mode {
	case 1:
		rd.eofWithData = true
	case 2:
		rd.zeroEvery = 2
	}
	d := c09NewDecoder(goj, rd)
	if useNumber {
		d.UseNumber()
	}
	var sb strings.Builder
	// a stream of documents: walk until the end of input
	for i := 0; i < 50; i++ {
		if !c09Walk(d, decodeAt, 0, elem, &sb) {
			break
		}
		if gd, ok := d.(*gojson.Decoder); ok {
			if msg, good := c09BufferedOK(gd, doc, rd); !good {
				sb.WriteString(" BUFFERED: " + msg)
			}
		}
	}
	return strings.ReplaceAll(sb.String(), "json.Delim", "Delim")
}

func c09Walks(o *Out, docs []string) {
	r := o.rng
	var pool []string
	for _, d := range docs {
		var probe interface{}
		t := strings.TrimLeft(d, " \t\r\n")
		if len(d) <= 300 && t != "" && (t[0] == '[' || t[0] == '{') && utf8.ValidString(d) && stdjson.Valid([]byte(d)) && gojson.Unmarshal([]byte(d), &probe) == nil {
			pool = append(pool, d)
		}
	}
	// arrays and objects of records, for the typed element destination
	recs := []string{`{"x":1,"y":"one"}`, `{"y":"twö\n","x":-2}`, `{ "x" : 3 }`, `{}`, `null`, `{"x":4,"y":"f\"our","z":[1,{"q":"]"}]}`, `{"Y":"😀","X":5}`}
	var recDocs []string
	nrec := 12
	if o.tier == "thorough" {
		nrec = 200
	}
	for i := 0; i < nrec; i++ {
		var parts []string
		for j := r.Intn(6); j >= 0; j-- {
			parts = append(parts, genWS(r)+recs[r.Intn(len(recs))]+genWS(r))
		}
		if i%2 == 0 {
			recDocs = append(recDocs, "["+strings.Join(parts, ",")+"]"+genWS(r))
		} else {
			for j := range parts {
				parts[j] = genStrings[r.Intn(len(genStrings))] + genWS(r) + ":" + parts[j]
			}
			recDocs = append(recDocs, genWS(r)+"{"+strings.Join(parts, ",")+"}")
		}
	}
	nw := 120
	if o.tier == "thorough" {
		nw = 2500
	}
	if len(pool) == 0 {
		return
	}
	for i := 0; i < nw; i++ {
		typed := i%4 == 3
		var ds string
		if typed {
			ds = recDocs[r.Intn(len(recDocs))]
		} else {
			ds = pool[r.Intn(len(pool))]
			// sometimes a stream of two documents
			if r.Intn(4) == 0 {
				ds += []string{"", " ", "\n"}[r.Intn(3)] + pool[r.Intn(len(pool))]
			}
		}
		// sometimes moved to a window boundary by leading white space
		if r.Intn(3) == 0 {
			w := []int{512, 1024}[r.Intn(2)]
			if pad := w - 1 - r.Intn(len(ds)+2); pad > 0 {
				ds = strings.Repeat(" ", pad) + ds
			}
		}
		doc := []byte(ds)
		elem := func() interface{} { var x interface{}; return &x }
		decodeAt := 1 + r.Intn(3)
		useNumber := r.Intn(2) == 0
		if typed {
			elem = func() interface{} { return &c09In{} }
			decodeAt = 1
		}
		want := c09RunWalk(false, doc, nil, 0, useNumber, decodeAt, elem)
		if strings.Contains(want, "ERR(eof=false)") || strings.Contains(want, "-ERR") || strings.Contains(want, "PANIC") || strings.Contains(want, "NO-END") {
			o.count("walks_skipped_encoding_json_fails", 1) // no oracle
			continue
		}
		o.current(map[string]string{"property": "C09", "doc": clip(ds), "doc_hex": hx(doc), "entry": "Token/More/Decode loop"})
		chunkings := c09SmallChunkings(o, len(doc), 160)
		for _, b := range []int{511, 512, 1023, 1024} {
			if b < len(doc) {
				chunkings = append(chunkings, []int{b})
			}
		}
		for ci, cuts := range chunkings {
			mode := 0
			if ci%5 == 4 {
				mode = 1 + ci%2
			}
			got := c09RunWalk(true, doc, cuts, mode, useNumber, decodeAt, elem)
			o.count("walks", 1)
			if got != want {
				o.violation("C09", "the Token/More/Decode loop over a document differs from encoding/json's (values, tokens or InputOffset after a step)", map[string]string{
					"doc": clip(ds), "doc_hex": hx(doc), "cuts": fmt.Sprint(cuts), "reader": c09ReaderModes[mode], "use_number": strconv.FormatBool(useNumber), "decode_at_depth": strconv.Itoa(decodeAt),
					"typed_elements": strconv.FormatBool(typed), "got": clipN(got, 1500), "want": clipN(want, 1500)})
				break
			}
		}
		if typed {
			o.hist("walk_kind", "typed elements")
		} else {
			o.hist("walk_kind", fmt.Sprintf("interface elements, Decode at depth %d, UseNumber=%v", decodeAt, useNumber))
		}
	}
	// every token of a document on every side of a refill that moves the buffer (as c09WindowSweep, through Token)
	sweep := []string{
		`{"kéy":[1,-22.5e3,"s\n\"t😀é"],"l":{"m":true,"n":null},"o":false} [12345678,"x"]`,
		`[{"x":1,"y":"one"} , {"y":"twö","x":-2},{},null,{"x":3,"z":["]",{"q":"}"}]}]`,
	}
	windows := []int{512, 1024}
	if o.tier == "thorough" {
		windows = append(windows, 2048, 4096)
	}
	for di, ds := range sweep {
		for _, decodeAt := range []int{1, 2, 9} {
			elem := func() interface{} { var x interface{}; return &x }
			if di == 1 {
				if decodeAt == 9 {
					continue
				}
				elem = func() interface{} { return &c09In{} }
			}
			for _, w := range windows {
				o.current(map[string]string{"property": "C09", "doc": ds, "entry": "Token/More/Decode loop", "note": fmt.Sprintf("behind %d-k leading spaces, k = -2..%d", w, len(ds)+2)})
				for k := -2; k <= len(ds)+2; k++ {
					pad := w - k
					if pad < 0 {
						continue
					}
					doc := []byte(strings.Repeat(" ", pad) + ds)
					useNumber := k%2 == 0
					want := c09RunWalk(false, doc, nil, 0, useNumber, decodeAt, elem)
					for _, cuts := range [][]int{nil, {w - 1}, {w - 1, 2*w - 2}} {
						got := c09RunWalk(true, doc, cuts, 0, useNumber, decodeAt, elem)
						o.count("walk_window_positions", 1)
						if got != want {
							o.violation("C09", "the Token/More/Decode loop differs from encoding/json's when a token crosses a refill of the stream buffer", map[string]string{
								"doc": ds, "leading_spaces": strconv.Itoa(pad), "cuts": fmt.Sprint(cuts), "use_number": strconv.FormatBool(useNumber), "decode_at_depth": strconv.Itoa(decodeAt),
								"got": clipN(got, 1500), "want": clipN(want, 1500)})
							break
						}
					}
				}
			}
		}
	}
}

// (1c)/(2b) the destination types of C02 and the Decoder's options.  A fixed family that reaches the twin paths of the
// stream decoder no destination above reaches (8-bit key matcher at the top level, the map-lookup key decoder of
// structs the matchers do not take, ",string" fields, Unmarshaler / TextUnmarshaler payloads and keys, embedded
// structs, json.Number, every integer width, []byte, arrays with surplus elements, pointers), and the generated
// types and documents of C02's typed decoding model.  Reference: Unmarshal (UnmarshalWithOption for FirstWin) on the
// same bytes; for UseNumber / DisallowUnknownFields, which Unmarshal does not have, the one-piece stream decode.
type c09xS8 struct {
	A  int     `json:"a"`
	Bc string  `json:"bc"`
	D  []int   `json:"d"`
	Ab *c09xS8 `json:"ab"`
	B  float64 `json:"b"`
}

type c09xSBig struct {
	F0, F1, F2, F3, F4, F5, F6, F7, F8, F9, F10, F11, F12, F13, F14, F15, F16, F17 int
	Name                                                                           string `json:"name"`
	Sub                                                                            *c09xS8
}

type c09xSUni struct {
	A int    `json:"é"`
	B string `json:"Straße"`
	C int    `json:"K"`
	D []int  `json:"ключ"`
}

type c09xSStr struct {
	A int64   `json:"a,string"`
	B bool    `json:"b,string"`
	C string  `json:"c,string"`
	D float64 `json:"d,string"`
	E *uint8  `json:"e,string"`
}

type c09xBase struct {
	Id   int    `json:"id"`
	Name string `json:"name"`
}

type c09xSEmb struct {
	c09xBase
	*c09xS8
	Name  string `json:"name"`
	Extra string `json:"extra"`
}

// records the text it is given
type c09xUM struct{ Raw string }

func (u *c09xUM) UnmarshalJSON(b []byte) error {
	u.Raw = string(b)
	return nil
}

type c09xTM struct{ Text string }

func (t *c09xTM) UnmarshalText(b []byte) error {
	t.Text = "<" + string(b) + ">"
	return nil
}

func (t c09xTM) MarshalText() ([]byte, error) { return []byte(t.Text), nil }

type c09xSMix struct {
	U  c09xUM                 `json:"u"`
	PU *c09xUM                `json:"pu"`
	T  c09xTM                 `json:"t"`
	N  stdjson.Number         `json:"n"`
	R  gojson.RawMessage      `json:"r"`
	MT map[c09xTM]int         `json:"mt"`
	MI map[int16]string       `json:"mi"`
	By []byte                 `json:"by"`
	Ar [2]uint8               `json:"ar"`
	PP **int                  `json:"pp"`
	F3 float32                `json:"f3"`
	U6 uint64                 `json:"u6"`
	I8 int8                   `json:"i8"`
	If interface{ M() }       `json:"if"`
	Tm time.Time              `json:"tm"`
	SU []c09xUM               `json:"su"`
	MU map[string]*c09xUM     `json:"mu"`
	An struct{ X, Y int }     `json:"an"`
	MM map[string]map[int]int `json:"mm"`
}

type c09xFamily struct {
	name string
	typ  reflect.Type
	docs []string
	init func(reflect.Value) // the state of the destination before the call (nil: the zero value)
}

// interface types with methods, and a destination whose interfaces hold pointers before the call: the decoder works
// on what the interface holds (interfaceDecoder.DecodeStream has its own code for each case)
type c09xIfM interface{ UnmarshalJSON([]byte) error }
type c09xIfT interface{ UnmarshalText([]byte) error }

type c09xSIf struct {
	S interface{} `json:"s"`
	U interface{} `json:"u"`
	T interface{} `json:"t"`
	P interface{} `json:"p"`
	V interface{} `json:"v"`
	M c09xIfM     `json:"m"`
	X c09xIfT     `json:"x"`
}

func c09xSIfInit(v reflect.Value) {
	n := 7
	v.Set(reflect.ValueOf(c09xSIf{S: &c09xS8{A: 9, Bc: "before"}, U: &c09xUM{Raw: "before"}, T: &c09xTM{Text: "before"}, P: &n, V: 5, M: &c09xUM{Raw: "before"}, X: &c09xTM{Text: "before"}}))
}

// open finding of this audit (StreamInterfaceUnmarshalerWhiteSpace): the document puts white space between the colon
// and the value of a member decoded through an interface type with methods
var c09xWSBeforeIfaceValue = regexp.MustCompile(`"[mx]"[ \t\r\n]*:[ \t\r\n]+`)

var c09xFamilies = []c09xFamily{
	{"struct, 8-bit key matcher", reflect.TypeOf(c09xS8{}), []string{
		`{"a":1,"bc":"x\ny","d":[1,2,3],"ab":{"a":2,"bc":"q","zz":[1,{"a":"}"}]},"unknown":{"k":"v\\"},"A":5,"b":1.5}`,
		`{"\u0061":7,"b\u0063":"😀","AB":null,"d":null, "a\\":1, "":2,"\u0062":-2e2,"abc":3,"b\"":[],"B":0.5}`,
		` { "ab" : { "ab" : { "bc" : "deep\u00e9" , "d" : [ ] } } , "bc" : "\ud83d\ude00" , "a" : -0 } `,
		`{"a":1,"a":2,"bc":"first","bc":"second","d":[1],"d":[2,3],"zz":"skipped \" string","b":1,"ab":null}`}, nil},
	{"struct, map-lookup key decoder (more than 16 fields)", reflect.TypeOf(c09xSBig{}), []string{
		`{"F0":1,"f17":2,"F1":3,"name":"n\"","F99":[1,2],"F16":4,"NAME":"x","Sub":{"a":1,"bc":"s"},"\u0046\u0031\u0030":10,"F1\u0031":11}`,
		`{ "f2" : 2 , "F3":3,"unknown\\":{"x":"}"},"sub":null,"F12":12,"F13" :13,"F14": 14,"Name":"\u00e9\n"}`}, nil},
	{"struct, map-lookup key decoder (keys outside ASCII)", reflect.TypeOf(c09xSUni{}), []string{
		`{"é":1,"Straße":"s","k":3,"\u00e9":2,"STRASSE":"no","straße":"low","É":9,"K":7,"ключ":[1,2],"КЛЮЧ":[3],"\u043a\u043b\u044e\u0447":[4]}`,
		`{"e\u0301":5,"Straße\u0000":"x","ключ":null,"ключ ":[9]," é":4}`}, nil},
	{"struct, fields with the string option", reflect.TypeOf(c09xSStr{}), []string{
		`{"a":"123","b":"true","c":"\"x\\ny\"","d":"1.5","e":"255"}`, `{"a":"-9223372036854775808","b":"false","c":"\"\"","d":"-1e-2","e":null}`,
		`{"a":"\u0031\u0032","b":"tru\u0065","c":"\"\\u00e9\"","d":"\u0031","e":"7"}`, `{"a":"12x"}`, `{"b":"tru"}`, `{"c":"x"}`, `{"e":"256"}`, `{"a":12}`, `{"a":" 12"}`, `{"d":"1.5 "}`}, nil},
	{"struct with embedded structs", reflect.TypeOf(c09xSEmb{}), []string{
		`{"id":1,"name":"outer","extra":"e","a":5,"bc":"emb","d":[1],"ab":{"a":1},"b":2.5}`, `{"extra":"\u0065","ID":2,"Name":"n","A":null}`, `{"a":1,"id":"wrong"}`}, nil},
	{"struct of Unmarshalers, numbers, keys of every kind", reflect.TypeOf(c09xSMix{}), []string{
		`{"u":{"k":[1,"}\"",{"x":null}]},"pu": [1 , 2.5e3,"s\\"] ,"t":"te\u00e9xt\n","n":-12.50e+3,"r": {"raw" : [1, "]"]} ,"mt":{"k1":1,"k\"2":2},"mi":{"-5":"a","7":"b"}}`,
		`{"by":"AQIDBA==","ar":[1,2,3,{"surplus":"]"}],"pp":5,"f3":1.5e10,"u6":18446744073709551615,"i8":-128,"if":null,"tm":"2024-02-29T12:34:56.789Z","su":[1,"two",[3],{"f":4},null,true],"mu":{"a":{"b":1},"c":null}}`,
		`{"an":{"X":1,"y":2,"z":3},"mm":{"o":{"1":2,"-3":4},"p":{},"q":null},"u":"str\\ing","pu":null,"t":null,"n":null,"r":null,"by":null,"ar":null,"pp":null}`,
		`{"u":tru}`, `{"n":"12"}`, `{"n":"x"}`, `{"i8":128}`, `{"u6":-1}`, `{"f3":1e39}`, `{"by":"@@"}`, `{"by":[1,2,255]}`, `{"mi":{"40000":"x"}}`, `{"tm":"yesterday"}`, `{"ar":[256]}`, `{"if":1}`, `{"mt":{"a":"x"}}`}, nil},
	{"struct of populated interfaces", reflect.TypeOf(c09xSIf{}), []string{
		`{"s": {"a":1,"bc":"x\ny","zz":[1]} ,"u": {"k":["}"]} ,"t": "te\u00e9xt" ,"p": 12 ,"v": "str","m":[1, "]"] ,"x":"k\"" }`,
		`{"s":null,"u":null,"t":null,"p":null,"v":null,"m":null,"x":null}`,
		`{"m":{"a":"\\"},"x":"\ud83d\ude00","u":-1.5e3,"t":"","s":{"ab":{"a":2}},"p":"wrong kind"}`,
		`{"m":tru}`, `{"x":5}`, `{"x":"\q"}`,
		// white space before the value of m and x (open finding StreamInterfaceUnmarshalerWhiteSpace)
		`{"m": {"k":1}}`, `{"x": "b"}`, `{"x": null}`, "{\"m\":\n[1] ,\"x\"\t:\t\"t\"}"}, c09xSIfInit},
	{"json.Number", reflect.TypeOf(stdjson.Number("")), []string{`123`, `-123.5e+10`, `"12"`, `null`, `1e400`, ` 0.0 `, `"1x"`, `12x`, `-`, `1.`, `"\u0031"`}, nil},
	{"uint64", reflect.TypeOf(uint64(0)), []string{`18446744073709551615`, `18446744073709551616`, `0`, `-1`, `12.0`, `1e2`, ` 42 `, `null`, `"1"`}, nil},
	{"int8", reflect.TypeOf(int8(0)), []string{`-128`, `127`, `128`, `-129`, `-0`, `1e1`, `null`}, nil},
	{"uint8", reflect.TypeOf(uint8(0)), []string{`255`, `256`, `0`, `00`, `1 2`}, nil},
	{"float32", reflect.TypeOf(float32(0)), []string{`3.4028235e38`, `3.5e38`, `-1.5`, `1e-50`, `null`, `1.5.5`}, nil},
	{"**int", reflect.TypeOf((**int)(nil)), []string{`5`, `null`, ` -77 `, `"x"`}, nil},
	{"[]byte", reflect.TypeOf([]byte(nil)), []string{`"AQID"`, `"AQIDBA=="`, `"A\u0051ID"`, `"AQ\nID"`, `[1,2,3]`, `null`, `""`, `"@"`, `[256]`}, nil},
	{"[2]string with surplus elements", reflect.TypeOf([2]string{}), []string{`["a","b","c",{"d":"]"},[5]]`, `["only"]`, `[]`, `null`, `["a",2]`, `["a","b",tru]`}, nil},
	{"map[int]string", reflect.TypeOf(map[int]string{}), []string{`{"1":"a","-2":"b\n","3":"c"}`, `{"1":"a","1":"b","+1":"c"}`, `{"\u0031":"x"}`, `{"x":"y"}`, `{}`, `null`}, nil},
	{"map[TextUnmarshaler]Unmarshaler", reflect.TypeOf(map[c09xTM]c09xUM{}), []string{`{"k\u00e9y":{"a":[1]},"\"":"s","":null}`, `{"a":1,"a":2}`}, nil},
	{"[]Unmarshaler", reflect.TypeOf([]c09xUM{}), []string{`[1, "two\\" ,[3 , 4],{"f":"}]"}, null,true ,-1.5e3]`, `[tru]`, `[1,]`}, nil},
	{"time.Time", reflect.TypeOf(time.Time{}), []string{`"2024-02-29T12:34:56.789+01:00"`, `"2024-02-2\u0039T00:00:00Z"`, `null`, `"x"`, `5`}, nil},
	{"[]*struct", reflect.TypeOf([]*c09In{}), []string{`[{"x":1,"y":"one"},null,{"y":"tw\u00f6","x":-2},{}]`, `[{"x":1}, {"x":"s"}]`}, nil},
	{"map[string][]map[string]uint16", reflect.TypeOf(map[string][]map[string]uint16{}), []string{`{"a":[{"b":1,"c":65535},{}],"d":[],"e":null,"f":[null,{"g":0}]}`, `{"a":[{"b":65536}]}`}, nil},
}

var c09xOptions = []string{"none", "UseNumber", "DisallowUnknownFields", "FirstWin", "UseNumber+DisallowUnknownFields+FirstWin"}

type c09xRes struct {
	ok     bool
	snap   string
	offset int64
	panicd string
}

func (r c09xRes) String() string {
	if r.panicd != "" {
		return "PANIC " + r.panicd
	}
	if !r.ok {
		return "reject"
	}
	return "accept " + r.snap + " @" + strconv.FormatInt(r.offset, 10)
}

func c09xStream(doc []byte, t reflect.Type, init func(reflect.Value), opt int, rd io.Reader) (res c09xRes) {
	defer func() {
		if rec := recover(); rec != nil {
			res = c09xRes{panicd: fmt.Sprint(rec)}
		}
	}()
	v := reflect.New(t)
	if init != nil {
		init(v.Elem())
	}
	dec := gojson.NewDecoder(rd)
	if opt == 1 || opt == 4 {
		dec.UseNumber()
	}
	if opt == 2 || opt == 4 {
		dec.DisallowUnknownFields()
	}
	var err error
	if opt >= 3 {
		err = dec.DecodeWithOption(v.Interface(), gojson.DecodeFieldPriorityFirstWin())
	} else {
		err = dec.Decode(v.Interface())
	}
	if err != nil {
		return c09xRes{}
	}
	return c09xRes{ok: true, snap: c09Snap(v.Elem().Interface()), offset: dec.InputOffset()}
}

func c09xBuffer(doc []byte, t reflect.Type, init func(reflect.Value), opt int) (res c09xRes) {
	defer func() {
		if rec := recover(); rec != nil {
			res = c09xRes{panicd: fmt.Sprint(rec)}
		}
	}()
	v := reflect.New(t)
	if init != nil {
		init(v.Elem())
	}
	var err error
	if opt == 3 {
		err = gojson.UnmarshalWithOption(doc, v.Interface(), gojson.DecodeFieldPriorityFirstWin())
	} else {
		err = gojson.Unmarshal(doc, v.Interface())
	}
	if err != nil {
		return c09xRes{}
	}
	return c09xRes{ok: true, snap: c09Snap(v.Elem().Interface())}
}

// one (type, document, option) under the chunkings; returns false after a violation
func c09xCase(o *Out, family string, t reflect.Type, init func(reflect.Value), ds string, opt int, chunkings [][]int, pad int) bool {
	doc := []byte(strings.Repeat(" ", pad) + ds)
	det := func() map[string]string {
		return map[string]string{"doc": clipN(ds, 1200), "doc_hex": hx([]byte(ds)), "leading_spaces": strconv.Itoa(pad), "type": clipN(t.String(), 600), "family": family, "options": c09xOptions[opt]}
	}
	whole := c09xStream(doc, t, init, opt, &cutReader{b: doc, failAt: -1})
	o.count("typed_stream_decodes", 1)
	if whole.panicd != "" {
		d := det()
		d["panic"] = whole.panicd
		o.violation("C09", "panic in stream decoding", d)
		return false
	}
	valid := stdjson.Valid(doc)
	if whole.ok {
		o.hist("typed_one_piece_verdict", "accept")
	} else {
		o.hist("typed_one_piece_verdict", "reject")
	}
	// stream = buffer, for the options Unmarshal has; a text that is not one JSON value is left to the untyped part above
	if valid && utf8.Valid(doc) && (opt == 0 || opt == 3) {
		buf := c09xBuffer(doc, t, init, opt)
		o.count("typed_stream_vs_buffer", 1)
		if buf.panicd == "" && (buf.ok != whole.ok || buf.ok && buf.snap != whole.snap) {
			d := det()
			d["stream"], d["buffer"] = clipN(whole.String(), 1200), clipN(buf.String(), 1200)
			if t == reflect.TypeOf(c09xSIf{}) && c09xWSBeforeIfaceValue.MatchString(ds) {
				c09Open(o, "StreamInterfaceUnmarshalerWhiteSpace", "Decoder.Decode and Unmarshal disagree on a valid document: white space before a value that is decoded through an interface type with methods holding an Unmarshaler or TextUnmarshaler", d)
				return true
			}
			o.violation("C09", "Decoder.Decode and Unmarshal disagree on a valid document (typed destination)", d)
			return false
		}
	}
	for ci, cuts := range chunkings {
		if cuts == nil {
			continue
		}
		rd := &cutReader{b: doc, cuts: cuts, failAt: -1}
		mode := 0
		if ci%7 == 6 {
			mode = 1 + ci%3
			rd.eofWithData = mode != 2
			if mode >= 2 {
				rd.zeroEvery = mode
			}
		}
		got := c09xStream(doc, t, init, opt, rd)
		o.count("typed_stream_decodes", 1)
		if got != whole {
			d := det()
			d["cuts"], d["reader"], d["one_piece"], d["with_cuts"] = fmt.Sprint(cuts), c09ReaderModes[mode], clipN(whole.String(), 1200), clipN(got.String(), 1200)
			o.violation("C09", "Decoder.Decode depends on how the reader cuts the input (typed destination)", d)
			return false
		}
	}
	return true
}

func c09TypedDests(o *Out) {
	r := o.rng
	thorough := o.tier == "thorough"
	// the fixed family: every document valid or not, every option, every single cut; then every byte of the document
	// on both sides of a refill that moves the buffer
	for _, fam := range c09xFamilies {
		for _, ds := range fam.docs {
			for opt := range c09xOptions {
				if !thorough && len(ds) > 60 && opt != 0 && opt != 1+(len(ds)+len(fam.name))%4 {
					continue // the long documents: without options and with one of them
				}
				if !stdjson.Valid([]byte(ds)) && fam.typ.Kind() == reflect.Struct && bytes.IndexByte([]byte(ds), '\\') >= 0 {
					continue // the recorded findings about malformed keys and skipped regions (c09KnownInvalid)
				}
				o.hist("typed_family", fam.name)
				o.hist("typed_options", c09xOptions[opt])
				o.current(map[string]string{"property": "C09", "doc": ds, "type": fam.typ.String(), "family": fam.name, "options": c09xOptions[opt], "note": "one of the chunkings of this document"})
				if !c09xCase(o, fam.name, fam.typ, fam.init, ds, opt, c09SmallChunkings(o, len(ds), 400), 0) {
					break
				}
			}
			if len(ds) < 40 || !stdjson.Valid([]byte(ds)) {
				continue
			}
			windows := []int{512, 1024}
			if thorough {
				windows = append(windows, 2048)
			}
			for _, w := range windows {
				o.current(map[string]string{"property": "C09", "doc": ds, "type": fam.typ.String(), "family": fam.name, "note": fmt.Sprintf("behind %d-k leading spaces, k = -1..%d, reader cut at %d", w, len(ds)+1, w-1)})
				for k := -1; k <= len(ds)+1; k++ {
					if pad := w - k; pad >= 0 {
						o.count("typed_window_positions", 1)
						if !c09xCase(o, fam.name, fam.typ, fam.init, ds, 0, [][]int{{w - 1}, {w - 1, 2*w - 2}}, pad) {
							break
						}
					}
				}
			}
		}
	}
	// generated types and documents of C02's typed decoding model
	n := 400
	if thorough {
		n = 12000
	}
	for i := 0; i < n; i++ {
		var t reflect.Type
		if i%3 == 0 {
			t = c02mType(r, 3)
		} else {
			t = c02mStruct(r, 2)
		}
		ds := c02mDoc(r, t, 0)
		if !utf8.ValidString(ds) || !stdjson.Valid([]byte(ds)) || len(ds) > 1500 {
			o.count("typed_generated_skipped", 1)
			continue
		}
		opt := r.Intn(len(c09xOptions))
		o.hist("typed_family", "generated (C02 model fragment): "+t.Kind().String())
		o.hist("typed_options", c09xOptions[opt])
		o.current(map[string]string{"property": "C09", "doc": clipN(ds, 1200), "type": clipN(t.String(), 600), "family": "generated", "options": c09xOptions[opt], "note": "one of the chunkings of this document"})
		c09xCase(o, "generated", t, nil, ds, opt, c09SmallChunkings(o, len(ds), 120), 0)
	}
}

// what Buffered returns must be the bytes the reader has delivered and the decoder has not consumed:
// stream[InputOffset : reader position]
func c09BufferedOK(dec *gojson.Decoder, stream []byte, rd *cutReader) (string, bool) {
	off := dec.InputOffset()
	rest, err := io.ReadAll(dec.Buffered())
	if err != nil {
		return "Buffered: " + err.Error(), false
	}
	if off < 0 || off > int64(rd.pos) || !bytes.Equal(rest, stream[off:rd.pos]) {
		return fmt.Sprintf("InputOffset %d, reader has delivered %d bytes, Buffered holds %d bytes %q, the unconsumed bytes are %q", off, rd.pos, len(rest), clipN(string(rest), 200), clipN(string(stream[c09Min64(off, int64(rd.pos)):rd.pos]), 200)), false
	}
	return "", true
}

func c09Min64(a, b int64) int64 {
	if a < 0 {
		return 0
	}
	if a < b {
		return a
	}
	return b
}

type c09SeqItem struct {
	doc  string
	typ  reflect.Type
	self bool // the text ends with a closing quote or bracket: the next document may follow without a separator
}

var c09SeqItems = []c09SeqItem{
	{`{"a":-12,"b":"x\nyé","c":[1,2],"zz":{"q":"}"},"g":true,"n":7}`, reflect.TypeOf(c09T{}), true},
	{`"stréing\"q😀\\"`, reflect.TypeOf(""), true},
	{`-123.5e3`, reflect.TypeOf(float64(0)), false},
	{`12345`, reflect.TypeOf(int(0)), false},
	{`true`, reflect.TypeOf(false), false},
	{`null`, tgIface, false},
	{`[1,"a",{"k":null}]`, tgIface, true},
	{`{"k":"v\\","k2":""}`, reflect.TypeOf(map[string]string{}), true},
	{`[1, 2,3 ]`, reflect.TypeOf([]int{}), true},
	{`"AQIDBA=="`, reflect.TypeOf([]byte{}), true},
	{`{"a":1,"bc":"x","zz":[{"a":"]"}],"ab":{"d":[7]}}`, reflect.TypeOf(c09xS8{}), true},
	{`{"u":{"k":[1]},"n":1.50,"by":"AQ==","tm":"2024-02-29T12:34:56Z","mi":{"-1":"m"}}`, reflect.TypeOf(c09xSMix{}), true},
	{`[{"x":1,"y":"one"},{"x":2}]`, reflect.TypeOf([]c09In{}), true},
	{`18446744073709551615`, reflect.TypeOf(uint64(0)), false},
	{`{ "raw" : [1, "]\\"] }`, reflect.TypeOf(gojson.RawMessage{}), true},
	{`-1.25e-3`, reflect.TypeOf(stdjson.Number("")), false},
}

// one stream of documents through one Decoder, each into a fresh destination of its type: values as Unmarshal's of the
// single documents, InputOffset between the end of the value and the start of the next, Buffered, More
func c09RunSequence(o *Out, items []c09SeqItem, firstPad string, seps []string, cuts []int, mode int, what string) bool {
	var stream []byte
	var lo, hi []int
	for i, it := range items {
		if i == 0 {
			stream = append(stream, firstPad...)
		}
		stream = append(stream, it.doc...)
		lo = append(lo, len(stream))
		stream = append(stream, seps[i]...)
		hi = append(hi, len(stream))
	}
	rd := &cutReader{b: stream, cuts: cuts, failAt: -1}
	switch mode {
	case 1:
		rd.eofWithData = true
	case 2:
		rd.zeroEvery = 2
	case 3:
		rd.eofWithData, rd.zeroEvery = true, 3
	}
	det := map[string]string{"stream": clipN(string(stream), 1500), "stream_hex": hx(stream), "cuts": fmt.Sprint(cuts), "reader": c09ReaderModes[mode], "stratum": what}
	fail := func(msg string, i int) bool {
		det["index"] = strconv.Itoa(i)
		if i < len(items) {
			det["document"], det["type"] = items[i].doc, items[i].typ.String()
		}
		o.violation("C09", msg, det)
		return false
	}
	ok := true
	func() {
		defer func() {
			if rec := recover(); rec != nil {
				det["panic"] = fmt.Sprint(rec)
				ok = fail("panic while decoding a stream of documents", len(items))
			}
		}()
		dec := gojson.NewDecoder(rd)
		for i, it := range items {
			if !dec.More() {
				ok = fail("More() = false before a document of the stream", i)
				return
			}
			gv, bv := reflect.New(it.typ), reflect.New(it.typ)
			gerr := dec.Decode(gv.Interface())
			berr := gojson.Unmarshal([]byte(it.doc), bv.Interface())
			o.count("typed_sequence_documents", 1)
			if berr != nil {
				ok = fail("(harness) Unmarshal rejects a document of the sequence stratum: "+berr.Error(), i)
				return
			}
			if gerr != nil || c09Snap(gv.Elem().Interface()) != c09Snap(bv.Elem().Interface()) {
				det["got"], det["want"], det["err"] = clipN(c09Snap(gv.Elem().Interface()), 800), clipN(c09Snap(bv.Elem().Interface()), 800), fmt.Sprint(gerr)
				ok = fail("a stream of concatenated documents does not decode to the sequence of the individual documents (typed destinations)", i)
				return
			}
			if off := dec.InputOffset(); off < int64(lo[i]) || off > int64(hi[i]) {
				ok = fail(fmt.Sprintf("InputOffset() = %d after a document of the stream, outside [%d,%d] (end of the value .. start of the next)", off, lo[i], hi[i]), i)
				return
			}
			if msg, good := c09BufferedOK(dec, stream, rd); !good {
				ok = fail("Buffered() is not the delivered and unconsumed part of the input: "+msg, i)
				return
			}
		}
		if dec.More() {
			ok = fail("More() = true after the last document", len(items))
			return
		}
		var x interface{}
		if err := dec.Decode(&x); err != io.EOF {
			det["err"] = fmt.Sprint(err)
			ok = fail("Decode after the last document does not return io.EOF", len(items))
		}
	}()
	return ok
}

// (3c) documents that begin, end and are reset on every side of the refill boundaries: a first document padded so that
// it ends k bytes before or behind the byte at which the window is full, then documents of every kind into typed
// destinations, with and without separators
func c09SequenceWindows(o *Out) {
	r := o.rng
	thorough := o.tier == "thorough"
	firsts := []struct {
		open, fill, close string
		typ               reflect.Type
	}{
		{`"`, "x", `"`, reflect.TypeOf("")},
		{`[`, " ", `]`, tgIface},
		{`{"k":"`, "é", `"}`, reflect.TypeOf(map[string]string{})},
		{`[`, "1,", `1]`, reflect.TypeOf([]int{})},
	}
	windows := []int{512, 1024}
	if thorough {
		windows = append(windows, 2048)
	}
	span := 4
	for _, w := range windows {
		for fi, f := range firsts {
			for si, second := range c09SeqItems {
				o.current(map[string]string{"property": "C09", "stratum": "streams of three documents around a refill boundary", "window": strconv.Itoa(w), "first_document": f.open + f.fill + "..." + f.close,
					"second_document": second.doc, "second_type": second.typ.String(), "note": fmt.Sprintf("the first document ends k bytes before byte %d, k = %d..%d", w-1, -span, len(second.doc)+span)})
				for k := -span; k <= len(second.doc)+span; k++ {
					if !thorough && (k+si+fi)%2 != 0 && k > 2 && k < len(second.doc)-2 {
						continue // quick tier: every position at the two ends of the second document, every other one inside
					}
					sep := []string{" ", "", "\n"}[(k+span)%3]
					// the first document ends at byte w-1-k of the stream
					n := (w - 1 - k - len(sep) - len(f.open) - len(f.close)) / len(f.fill)
					if n < 0 {
						continue
					}
					first := c09SeqItem{doc: f.open + strings.Repeat(f.fill, n) + f.close, typ: f.typ, self: true}
					third := c09SeqItems[r.Intn(len(c09SeqItems))]
					sep2 := []string{" ", "", "\t\r\n"}[r.Intn(3)]
					if !second.self && sep2 == "" {
						sep2 = " "
					}
					items := []c09SeqItem{first, second, third}
					seps := []string{sep, sep2, []string{"", " ", "\n"}[r.Intn(3)]}
					if !third.self && seps[2] == "" && r.Intn(2) == 0 {
						seps[2] = "\n" // a number or literal at the very end of the input: with and without a byte behind it
					}
					for ci, cuts := range [][]int{nil, {w - 1}, {w}, {w - 1 - k}} {
						for len(cuts) > 0 && cuts[len(cuts)-1] <= 0 {
							cuts = nil
						}
						mode := 0
						if ci == 3 {
							mode = (k + span) % 4
						}
						o.count("sequence_window_streams", 1)
						if !c09RunSequence(o, items, "", seps, cuts, mode, fmt.Sprintf("first document ends %d bytes before the %d-byte refill boundary", k, w)) {
							return
						}
					}
				}
			}
		}
	}
	// random streams of typed documents under the small chunkings
	n := 150
	if thorough {
		n = 3000
	}
	for i := 0; i < n; i++ {
		var items []c09SeqItem
		var seps []string
		for j := 1 + r.Intn(5); j > 0; j-- {
			it := c09SeqItems[r.Intn(len(c09SeqItems))]
			sep := []string{" ", "", "\n", "  \t"}[r.Intn(4)]
			if !it.self && sep == "" && j > 1 {
				sep = " "
			}
			items = append(items, it)
			seps = append(seps, sep)
		}
		total := 0
		for j := range items {
			total += len(items[j].doc) + len(seps[j])
		}
		var all []string
		for j := range items {
			all = append(all, items[j].doc+seps[j])
		}
		o.current(map[string]string{"property": "C09", "stratum": "random stream of typed documents", "stream": strings.Join(all, ""), "note": "one of the chunkings of this stream"})
		for ci, cuts := range c09SmallChunkings(o, total, 100) {
			o.count("typed_sequence_streams", 1)
			if !c09RunSequence(o, items, "", seps, cuts, ci%4, "random stream of typed documents") {
				return
			}
		}
	}
}

// (3d) long streams of typed documents read by a reader that fills every request: after each document the window is
// what was left of it, so the refills that move the buffer fall on ever different bytes of the documents that follow
func c09LongStreams(o *Out) {
	r := o.rng
	n := 120
	if o.tier == "thorough" {
		n = 3000
	}
	for i := 0; i < n; i++ {
		var items []c09SeqItem
		var seps, all []string
		total := 0
		for j := 20 + r.Intn(40); j > 0; j-- {
			it := c09SeqItems[r.Intn(len(c09SeqItems))]
			sep := []string{" ", "", "\n", "  \t"}[r.Intn(4)]
			if !it.self && sep == "" {
				sep = " "
			}
			items = append(items, it)
			seps = append(seps, sep)
			all = append(all, it.doc+sep)
			total += len(it.doc) + len(sep)
		}
		var cuts []int
		what := "the reader fills every request"
		if size := []int{0, 0, 511, 512, 513, 1024, 100 + r.Intn(900)}[r.Intn(7)]; size > 0 {
			for p := size; p < total; p += size {
				cuts = append(cuts, p)
			}
			what = fmt.Sprintf("pieces of %d bytes", size)
		}
		o.current(map[string]string{"property": "C09", "stratum": "long stream of typed documents, " + what, "stream": clipN(strings.Join(all, ""), 4000)})
		o.count("long_streams", 1)
		o.count("long_stream_refill_boundaries_crossed", int64(c09BitLen(total/511)))
		if !c09RunSequence(o, items, "", seps, cuts, 0, "long stream of typed documents, "+what) {
			return
		}
	}
}

// (4c) a reader failure at every byte of a stream of documents: the Decodes that succeed give the values of the
// documents, in order, and only documents whose value the reader delivered completely
func c09SequenceFailures(o *Out) {
	r := o.rng
	injected := errors.New("injected reader failure")
	n := 60
	if o.tier == "thorough" {
		n = 1200
	}
	for i := 0; i < n; i++ {
		var items []c09SeqItem
		var stream []byte
		var ends []int
		for j := 2 + r.Intn(3); j > 0; j-- {
			it := c09SeqItems[r.Intn(len(c09SeqItems))]
			sep := []string{" ", "", "\n"}[r.Intn(3)]
			if !it.self && sep == "" && j > 1 {
				sep = " "
			}
			items = append(items, it)
			stream = append(stream, it.doc...)
			ends = append(ends, len(stream))
			stream = append(stream, sep...)
		}
		o.current(map[string]string{"property": "C09", "stratum": "reader failure at every byte of a stream of documents", "stream": clipN(string(stream), 1500), "stream_hex": hx(stream)})
		for p := 0; p <= len(stream); p++ {
			for t := 0; t < 2; t++ {
				if t == 1 && (p == 0 || (p+i)%2 != 0) {
					continue
				}
				var cuts []int
				if c := r.Intn(len(stream) + 1); c > 0 && c < len(stream) && r.Intn(2) == 0 {
					cuts = []int{c}
				}
				det := map[string]string{"stream": clipN(string(stream), 1500), "stream_hex": hx(stream), "cuts": fmt.Sprint(cuts), "reader_fails_after_bytes": strconv.Itoa(p), "error_together_with_the_last_bytes": strconv.FormatBool(t == 1)}
				rd := &cutReader{b: stream, cuts: cuts, failAt: p, err: injected, errWithData: t == 1}
				dec := gojson.NewDecoder(rd)
				o.count("sequence_reader_failures_injected", 1)
				for j, it := range items {
					gv, bv := reflect.New(it.typ), reflect.New(it.typ)
					var gerr error
					func() {
						defer func() {
							if rec := recover(); rec != nil {
								gerr = fmt.Errorf("panic: %v", rec)
							}
						}()
						gerr = dec.Decode(gv.Interface())
					}()
					if gerr != nil {
						if strings.HasPrefix(gerr.Error(), "panic: ") {
							det["index"], det["panic"] = strconv.Itoa(j), gerr.Error()
							o.violation("C09", "panic while decoding a stream whose reader fails", det)
						} else if errors.Is(gerr, injected) {
							o.hist("sequence_reader_failure", "reported, document "+strconv.Itoa(j))
						} else {
							o.hist("sequence_reader_failure", "another error, document "+strconv.Itoa(j))
						}
						break
					}
					gojson.Unmarshal([]byte(it.doc), bv.Interface())
					if p < ends[j] || c09Snap(gv.Elem().Interface()) != c09Snap(bv.Elem().Interface()) {
						det["index"], det["document"], det["decoded"] = strconv.Itoa(j), it.doc, clipN(c09Snap(gv.Elem().Interface()), 800)
						o.violation("C09", "a reader error was turned into a successfully decoded value (a document of a stream the reader did not deliver completely)", det)
						break
					}
					o.count("sequence_documents_decoded_before_the_failure", 1)
				}
			}
		}
	}
}

// (1d) documents many times the size of the window (the buffer is doubled again and again, with tokens of every kind
// across every doubling) under fixed piece sizes around the powers of two
func c09LargeDocs(o *Out) {
	r := o.rng
	thorough := o.tier == "thorough"
	type rec struct {
		ID   int               `json:"id"`
		Name string            `json:"name"`
		Tags []string          `json:"tags"`
		V    float64           `json:"v"`
		OK   bool              `json:"ok"`
		Nil  *int              `json:"nil"`
		M    map[string]string `json:"m"`
		Raw  gojson.RawMessage `json:"raw"`
	}
	type top struct {
		List []rec  `json:"list"`
		S    string `json:"s"`
		B    []byte `json:"b"`
		N    stdjson.Number
	}
	build := func(nrec, nstr int) string {
		var sb strings.Builder
		sb.WriteString(`{"list":[`)
		for i := 0; i < nrec; i++ {
			if i > 0 {
				sb.WriteString(genWS(r) + ",")
			}
			fmt.Fprintf(&sb, `{"id":%d,"name":"né%d\n😀","tags":["a","b\\",%s],"unknown":{"skipped":[%d,"}\"]"]},"v":%d.5e-1,"ok":%v,"nil":null,"m":{"k%d":%s},"raw": [ %d , {"r":"]"} ] }`,
				i, i, genStrings[r.Intn(len(genStrings))], i, i, i%2 == 0, i, genStrings[r.Intn(len(genStrings))], i)
		}
		sb.WriteString(`],"s":"`)
		pieces := []string{"xy", `\"`, "z", "é", "é", "😀", `\n`, `é`, `😀`, " ", `\\`, "plain ascii run of some length "}
		for i := 0; i < nstr; i++ {
			sb.WriteString(pieces[r.Intn(len(pieces))])
		}
		sb.WriteString(`","b":"` + strings.Repeat("QUJD", nstr/3) + `","N":-1` + strings.Repeat("0", 300) + `.5e-7}`)
		return sb.String()
	}
	docs := []string{build(40, 2000), build(300, 100), build(3, 30000), "[" + strings.Repeat(`[[{"a":[`, 600) + strings.Repeat(`]}]]`, 600) + "]"}
	if thorough {
		docs = append(docs, build(3000, 40000), build(10, 400000), `"`+strings.Repeat(`é`, 200000)+`"`)
	}
	dests := []reflect.Type{tgIface, reflect.TypeOf(top{}), reflect.TypeOf(gojson.RawMessage{}), reflect.TypeOf(map[string]interface{}{})}
	for _, ds := range docs {
		doc := []byte(ds + "\n")
		sizes := []int{0, 7, 511, 512, 513, 1023, 1024, 1025, 4095, 4096, 65536, 2 + r.Intn(300), 300 + r.Intn(5000)}
		if len(doc) < 40000 || thorough && len(doc) < 300000 {
			sizes = append(sizes, 1, 2)
		}
		for _, t := range dests {
			bv := reflect.New(t)
			berr := gojson.Unmarshal(doc, bv.Interface())
			if berr != nil {
				o.count("large_documents_rejected_by_unmarshal", 1) // a document of another shape than the destination: the verdicts are compared
			}
			want := c09Snap(bv.Elem().Interface())
			o.current(map[string]string{"property": "C09", "doc": clip(ds), "document_bytes": strconv.Itoa(len(doc)), "type": t.String(), "note": "one of the piece sizes " + fmt.Sprint(sizes)})
			for _, size := range sizes {
				gv := reflect.New(t)
				var gerr error
				var off int64
				func() {
					defer func() {
						if rec := recover(); rec != nil {
							gerr = fmt.Errorf("panic: %v", rec)
						}
					}()
					dec := gojson.NewDecoder(&c09SizedReader{b: doc, size: size})
					gerr = dec.Decode(gv.Interface())
					off = dec.InputOffset()
				}()
				o.count("large_document_decodes", 1)
				o.hist("large_document_bytes", fmt.Sprintf("2^%d", c09BitLen(len(doc))))
				if berr != nil && gerr != nil && !strings.HasPrefix(gerr.Error(), "panic: ") {
					continue
				}
				if gerr != nil || berr != nil || c09Snap(gv.Elem().Interface()) != want {
					o.violation("C09", "Decoder.Decode and Unmarshal disagree on a document many times the size of the stream window", map[string]string{
						"doc": clip(ds), "document_bytes": strconv.Itoa(len(doc)), "piece_size": strconv.Itoa(size), "type": t.String(), "stream_error": fmt.Sprint(gerr), "unmarshal_error": fmt.Sprint(berr)})
					break
				}
				if off != int64(len(doc)-1) && off != int64(len(doc)) {
					o.violation("C09", fmt.Sprintf("InputOffset() = %d after a document of %d bytes and one line end", off, len(doc)-1), map[string]string{
						"doc": clip(ds), "document_bytes": strconv.Itoa(len(doc)), "piece_size": strconv.Itoa(size), "type": t.String()})
					break
				}
			}
		}
	}
}

func c09BitLen(n int) int {
	k := 0
	for n > 0 {
		n >>= 1
		k++
	}
	return k
}
