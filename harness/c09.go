package main

// C09: stream decoding equals buffer decoding for every chunking of the input.
//   (1) chunking invariance: for valid and invalid documents and several
//       destination types, Decoder.Decode gives the same verdict, value and
//       input offset however the reader cuts the bytes (every single cut,
//       pairs of cuts for short inputs, fixed piece sizes 1..17, cuts around
//       the 512/1024-byte window boundaries);
//   (2) stream = Unmarshal for documents that are one JSON text;
//   (3) concatenated documents decode to the sequence of the individual ones,
//       with More / InputOffset consistent with the bytes consumed, and the
//       Token sequence equals encoding/json's under every chunking;
//   (4) a reader error other than EOF injected at every byte position is never
//       turned into a successfully decoded value.

import (
	"bytes"
	stdjson "encoding/json"
	"errors"
	"fmt"
	"io"
	"sort"
	"strconv"
	"strings"
	"unicode/utf8"

	gojson "github.com/goccy/go-json"
)

func init() { props["C09"] = runC09 }

// a reader that delivers the bytes between consecutive cut positions; failAt >= 0 injects an error there
type cutReader struct {
	b      []byte
	cuts   []int // ascending positions in (0, len(b))
	pos    int
	failAt int
	err    error
	failed bool // the error has been handed to the caller
}

func (r *cutReader) Read(p []byte) (int, error) {
	if r.failAt >= 0 && r.pos >= r.failAt {
		r.failed = true
		return 0, r.err
	}
	if r.pos >= len(r.b) {
		return 0, io.EOF
	}
	end := len(r.b)
	for _, c := range r.cuts {
		if c > r.pos {
			end = c
			break
		}
	}
	if r.failAt >= 0 && end > r.failAt {
		end = r.failAt
	}
	n := copy(p, r.b[r.pos:end])
	r.pos += n
	return n, nil
}

type c09T struct {
	A int                    `json:"a"`
	B string                 `json:"b"`
	C []int                  `json:"c"`
	D map[string]string      `json:"d"`
	E *c09T                  `json:"e"`
	F float64                `json:"f"`
	G bool                   `json:"g"`
	H []byte                 `json:"h"`
	I interface{}            `json:"i"`
	J []c09In                `json:"j"`
	K gojson.RawMessage      `json:"k"`
	L map[string]interface{} `json:"l"`
	M [2]string              `json:"m"`
	N *int                   `json:"n"`
}

type c09In struct {
	X int    `json:"x"`
	Y string `json:"y"`
}

type c09Dest struct {
	name string
	mk   func() interface{}
}

var c09Dests = []c09Dest{
	{"interface", func() interface{} { var x interface{}; return &x }},
	{"struct", func() interface{} { return &c09T{} }},
	{"map", func() interface{} { return &map[string]interface{}{} }},
	{"slice", func() interface{} { return &[]interface{}{} }},
	{"int", func() interface{} { var x int; return &x }},
	{"string", func() interface{} { var x string; return &x }},
	{"float", func() interface{} { var x float64; return &x }},
	{"bool", func() interface{} { var x bool; return &x }},
	{"raw", func() interface{} { return &gojson.RawMessage{} }},
	{"ints", func() interface{} { return &[]int{} }},
	{"strings", func() interface{} { return &map[string]string{} }},
}

// the two snapshots (JSON made by encoding/json) denote the same value once invalid UTF-8 is replaced
func c09SameAfterUTF8Repair(a, b string) bool {
	var x, y interface{}
	if stdjson.Unmarshal([]byte(a), &x) != nil || stdjson.Unmarshal([]byte(b), &y) != nil {
		return false
	}
	p, _ := stdjson.Marshal(x)
	q, _ := stdjson.Marshal(y)
	return bytes.Equal(p, q)
}

func c09Snap(v interface{}) string {
	b, err := stdjson.Marshal(v)
	if err != nil {
		return "unmarshalable:" + fmt.Sprintf("%#v", v)
	}
	return string(b)
}

type c09Res struct {
	ok     bool
	snap   string
	offset int64
	panicd string
}

func (r c09Res) String() string {
	if r.panicd != "" {
		return "PANIC " + r.panicd
	}
	if !r.ok {
		return "reject"
	}
	return "accept " + r.snap + " @" + strconv.FormatInt(r.offset, 10)
}

func c09Stream(doc []byte, d c09Dest, cuts []int) (res c09Res) {
	defer func() {
		if rec := recover(); rec != nil {
			res = c09Res{panicd: fmt.Sprint(rec)}
		}
	}()
	v := d.mk()
	dec := gojson.NewDecoder(&cutReader{b: doc, cuts: cuts, failAt: -1})
	if err := dec.Decode(v); err != nil {
		return c09Res{}
	}
	return c09Res{ok: true, snap: c09Snap(v), offset: dec.InputOffset()}
}

func c09Buffer(doc []byte, d c09Dest) (res c09Res) {
	defer func() {
		if rec := recover(); rec != nil {
			res = c09Res{panicd: fmt.Sprint(rec)}
		}
	}()
	v := d.mk()
	if err := gojson.Unmarshal(doc, v); err != nil {
		return c09Res{}
	}
	return c09Res{ok: true, snap: c09Snap(v)}
}

// the open findings of C05 about texts that are not JSON, as they show when the two modes are compared: a predicate
// on the document and the destination only
func c09KnownInvalid(doc []byte, stdValid bool, dest string, streamOK, bufOK bool) string {
	if stdValid {
		return ""
	}
	if bytes.IndexByte(doc, '\\') < 0 && bytes.IndexByte(doc, 0) < 0 {
		if dest == "struct" && streamOK && !bufOK {
			return "SkipUnvalidated" // an unknown member stepped over without validation
		}
		return ""
	}
	switch dest {
	case "struct":
		if bufOK && !streamOK {
			return "StructKeyUnvalidated"
		}
		return "StreamStructKeyLenient"
	case "raw":
		return "StreamSkipScannerLenient"
	}
	return ""
}

// the chunkings of the quantifier for a document of n bytes
func c09Chunkings(o *Out, n int, heavy bool) [][]int {
	var res [][]int
	res = append(res, nil) // one piece
	for size := 1; size <= 17; size++ {
		var c []int
		for p := size; p < n; p += size {
			c = append(c, p)
		}
		res = append(res, c)
	}
	if n <= 260 || heavy {
		for p := 1; p < n; p++ {
			res = append(res, []int{p})
		}
	} else {
		for k := 0; k < 40; k++ {
			res = append(res, []int{1 + o.rng.Intn(n-1)})
		}
	}
	if n <= 26 {
		for p := 1; p < n; p++ {
			for q := p + 1; q < n; q++ {
				res = append(res, []int{p, q})
			}
		}
	} else {
		for k := 0; k < 30; k++ {
			p := 1 + o.rng.Intn(n-1)
			q := 1 + o.rng.Intn(n-1)
			if p > q {
				p, q = q, p
			}
			if p != q {
				res = append(res, []int{p, q})
			}
		}
	}
	for _, b := range []int{511, 512, 513, 1023, 1024, 1025, 1535, 1536, 2047, 2048} {
		for _, d := range []int{-1, 0, 1} {
			if p := b + d; p > 0 && p < n {
				res = append(res, []int{p})
				if p+1 < n {
					res = append(res, []int{p, p + 1})
				}
			}
		}
	}
	return res
}

func c09Long(r interface{ Intn(int) int }) []string {
	// documents whose interesting bytes sit around the 512 / 1024 byte window boundaries
	var res []string
	for _, target := range []int{500, 505, 509, 510, 511, 512, 513, 1020, 1023, 1024, 1030} {
		pad := strings.Repeat("x", target-8)
		res = append(res,
			`{"b":"`+pad+`\né😀tail","a":12345,"c":[1,2,3],"g":true,"n":null}`,
			`["`+pad+`",-12.5e3,{"k":"v\"q"},false,null,"😀"]`,
			strings.Repeat(" ", target-3)+`{"a":-98765,"f":1.25,"e":{"b":"in\\ner"}}`,
			`{"a":1,"unknown":[`+strings.Repeat("1,", (target-20)/2)+`1],"b":"after skip","c":[7]}`,
			`{"l":{"`+pad+`":1},"m":["p","q"],"k": {"raw" : [1, 2]} }`)
	}
	return res
}

func runC09(o *Out) {
	r := o.rng
	thorough := o.tier == "thorough"
	var docs []string
	docs = append(docs, corpusDocs...)
	ng := 120
	if thorough {
		ng = 1500
	}
	for i := 0; i < ng; i++ {
		docs = append(docs, genDoc(r, 3))
	}
	// documents shaped for the struct destination
	for i := 0; i < ng/2; i++ {
		var parts []string
		for _, f := range []string{`"a":` + genNumbers[r.Intn(len(genNumbers))], `"b":` + genStrings[r.Intn(len(genStrings))], `"c":[1, 2 ,3]`, `"d":{"k":` + genStrings[r.Intn(len(genStrings))] + `}`,
			`"e":{"a":7,"b":"nested"}`, `"f":` + genNumbers[r.Intn(len(genNumbers))], `"g":true`, `"h":"AQID"`, `"i":` + genValue(r, 2), `"j":[{"x":1,"y":"one"},{"x":2}]`,
			`"k": {"r":[1,{}]}`, `"l":{"p":null,"q":[true]}`, `"m":["u","v"]`, `"n":5`, `"zz":` + genValue(r, 2), `"n":null`} {
			if r.Intn(3) != 0 {
				parts = append(parts, f)
			}
		}
		r.Shuffle(len(parts), func(i, j int) { parts[i], parts[j] = parts[j], parts[i] })
		docs = append(docs, "{"+genWS(r)+strings.Join(parts, genWS(r)+","+genWS(r))+genWS(r)+"}"+genWS(r))
	}
	docs = append(docs, c09Long(r)...)
	// object keys that match no field and end in an escape: every cut position matters
	docs = append(docs, `{"[\"":{"é":false},"k":null,"a":5}`, `{"0\\": 1E+2 , "a":7  }`, `{"x\u0022":[1],"\\\"":2,"b":"z\""}`, `{"unknown\\\\":{"\"":"\\"},"c":[1]}`)
	// invalid neighbours
	nmut := 0
	for _, d := range docs[:len(docs):len(docs)] {
		if len(d) > 120 || nmut > 400 && !thorough {
			continue
		}
		mutations(d, alphabet27, 7, func(m string) {
			if r.Intn(6) == 0 {
				docs = append(docs, m)
				nmut++
			}
		})
	}
	o.count("documents", int64(len(docs)))
	classes := map[string]int64{}
	for di, ds := range docs {
		doc := []byte(ds)
		if len(doc) == 0 {
			continue
		}
		// which destinations: all for short documents, three otherwise
		dests := c09Dests
		if len(doc) > 64 {
			dests = []c09Dest{c09Dests[0], c09Dests[1], c09Dests[2+r.Intn(len(c09Dests)-2)]}
		}
		chunkings := c09Chunkings(o, len(doc), thorough && len(doc) <= 2000)
		stdValid := stdjson.Valid(doc)
		for _, d := range dests {
			o.current(map[string]string{"property": "C09", "doc": clip(ds), "doc_hex": hx(doc), "dest": d.name})
			whole := c09Stream(doc, d, nil)
			if whole.panicd != "" {
				o.violation("C09", "panic in stream decoding", map[string]string{"doc": clip(ds), "doc_hex": hx(doc), "dest": d.name, "panic": whole.panicd})
				continue
			}
			o.count("stream_decodes", 1)
			if whole.ok {
				o.hist("one_piece_verdict", "accept")
			} else {
				o.hist("one_piece_verdict", "reject")
			}
			// (1) chunking invariance
			reported := false
			for _, cuts := range chunkings {
				if cuts == nil {
					continue
				}
				got := c09Stream(doc, d, cuts)
				o.count("stream_decodes", 1)
				if got != whole && !reported {
					reported = true
					if cls := c09KnownInvalid(doc, stdValid, d.name, got.ok, whole.ok); cls != "" {
						o.known(cls, fmt.Sprintf("%q into %s, cuts %v", ds, d.name, cuts))
						continue
					}
					o.violation("C09", "Decoder.Decode depends on how the reader cuts the input", map[string]string{
						"doc": clip(ds), "doc_hex": hx(doc), "dest": d.name, "cuts": fmt.Sprint(cuts), "one_piece": clip(whole.String()), "with_cuts": clip(got.String())})
				}
			}
			// (2) stream = buffer when the document is one JSON text (no second value behind it)
			buf := c09Buffer(doc, d)
			if buf.panicd != "" {
				continue // C06's business
			}
			if stdValid {
				if whole.ok != buf.ok || (whole.ok && whole.snap != buf.snap) {
					switch {
					case whole.ok && buf.ok && !utf8.Valid(doc) && c09SameAfterUTF8Repair(whole.snap, buf.snap):
						// recorded finding: Unmarshal keeps invalid UTF-8 bytes of a string, the Decoder (like encoding/json) replaces them
						o.known("BufferKeepsInvalidUTF8", fmt.Sprintf("%q into %s", ds, d.name))
					default:
						o.violation("C09", "Decoder.Decode and Unmarshal disagree on a valid document", map[string]string{
							"doc": clip(ds), "doc_hex": hx(doc), "dest": d.name, "stream": clip(whole.String()), "buffer": clip(buf.String())})
					}
				}
				o.count("valid_stream_vs_buffer", 1)
			} else if whole.ok != buf.ok {
				// the first value of an invalid text may be complete: the Decoder is entitled to it, Unmarshal is not
				var sv interface{}
				sdec := stdjson.NewDecoder(bytes.NewReader(doc))
				serr := sdec.Decode(&sv)
				switch {
				case whole.ok && !buf.ok && serr == nil:
					classes["first value of a longer text (as encoding/json)"]++
				case whole.ok && !buf.ok && d.name == "int":
					o.known("StreamIntegerPrefix", fmt.Sprintf("%q into int", ds))
				case whole.ok && !buf.ok && d.name == "raw":
					// C05's SkipUnvalidated: the skip scanners behind RawMessage accept some invalid values in both modes;
					// Unmarshal then rejects only because of what follows
					o.known("RawSkipUnvalidated", fmt.Sprintf("%q into RawMessage", ds))
				case c09KnownInvalid(doc, stdValid, d.name, whole.ok, buf.ok) != "":
					o.known(c09KnownInvalid(doc, stdValid, d.name, whole.ok, buf.ok), fmt.Sprintf("%q into %s", ds, d.name))
				case whole.ok && !buf.ok:
					o.violation("C09", "Decoder.Decode accepts the beginning of an invalid text that neither Unmarshal nor encoding/json's Decoder accept", map[string]string{
						"doc": clip(ds), "doc_hex": hx(doc), "dest": d.name, "stream": clip(whole.String())})
				default:
					o.violation("C09", "Decoder.Decode rejects a text that Unmarshal accepts", map[string]string{
						"doc": clip(ds), "doc_hex": hx(doc), "dest": d.name})
				}
			}
			// (4) reader failure at every byte position
			if di%3 == 0 || len(doc) < 40 {
				injected := errors.New("injected reader failure")
				step := 1
				if len(doc) > 200 {
					step = len(doc) / 100
				}
				for p := 0; p <= len(doc); p += step {
					var sv interface{} = d.mk()
					sdec := stdjson.NewDecoder(&cutReader{b: doc, failAt: p, err: injected})
					serr := sdec.Decode(sv)
					gv := d.mk()
					gr := &cutReader{b: doc, failAt: p, err: injected}
					gdec := gojson.NewDecoder(gr)
					var gerr error
					func() {
						defer func() {
							if rec := recover(); rec != nil {
								gerr = fmt.Errorf("panic: %v", rec)
							}
						}()
						gerr = gdec.Decode(gv)
					}()
					o.count("reader_failures_injected", 1)
					// the library asked for more input, was told the reader failed, and still reported success
					if gerr == nil && gr.failed && serr != nil && errors.Is(serr, injected) {
						o.violation("C09", "a reader error was turned into a successfully decoded value", map[string]string{
							"doc": clip(ds), "doc_hex": hx(doc), "dest": d.name, "reader_fails_after_bytes": strconv.Itoa(p), "decoded": clip(c09Snap(gv))})
						break
					}
					if gerr != nil && errors.Is(gerr, injected) {
						o.count("reader_error_passed_through", 1)
					} else if gerr != nil {
						o.count("reader_error_reported_as_other_error", 1)
					}
				}
			}
		}
	}
	var ks []string
	for k := range classes {
		ks = append(ks, k)
	}
	sort.Strings(ks)
	for _, k := range ks {
		o.Stats["invalid: "+k] = classes[k]
	}
	c09Sequences(o, docs)
	c09BoolCases(o)
	c09WindowSweep(o)
}

// every byte of a document on every side of the boundaries at which the stream buffer is refilled and moved to a
// larger allocation (512, 1024): the document is shifted by leading white space, the reader fills every request
// completely (which is what makes the next refill reallocate) or stops one byte short of it
func c09WindowSweep(o *Out) {
	docs := []string{
		`{"\u0061":-12345,"b":"x\ny\u00e9\ud83d\ude00z","\u0063":[1,22,333],"d":{"k\"q":"v"},"g":true,"n":null}`,
		`{"e":{"\u0061":7,"\u0062":"in\\ner","e":{"a":1}},"f":-1.25e+3,"h":"AQIDBA==","\u006a":[{"x":1,"y":"one"},{"\u0078":2}]}`,
		`{"unknown\u0020key":{"deep":[1,{"x":"\u0041"}]},"a":5,"m":["p\tq","r"],"k": {"raw" : [1, 2]} ,"l":{"p":null}}`,
		`{"i":[true,false,null,"s\u0000t",1e2,{"\ud834\udd1e":"\ud834\udd1e"}],"A":9,"\u0042":"case"}`,
		`["\u0061\\",-0.5,{"\u006b":"v\"q"},false,null,"\ud83d\ude00",[[]],{}]`,
		`"plain \u00e9 \ud83d\ude00 \"quoted\" \\ tail"`,
		`-123456789012345678`,
		`123456.789e-3`,
		`{"d":{"\u0041\u0042":"ab","\u00e9":"\u00e9","x\/y":"z"},"c":[-1,0,1]}`,
	}
	windows := []int{512, 1024}
	if o.tier == "thorough" {
		windows = append(windows, 2048, 4096)
	}
	for _, ds := range docs {
		for _, w := range windows {
			for k := -2; k <= len(ds)+2; k++ {
				pad := w - k
				if pad < 0 {
					continue
				}
				doc := []byte(strings.Repeat(" ", pad) + ds)
				for _, d := range []c09Dest{c09Dests[0], c09Dests[1], c09Dests[2], c09Dests[3], c09Dests[5], c09Dests[6], c09Dests[8]} {
					buf := c09Buffer(doc, d)
					if buf.panicd != "" {
						continue
					}
					o.current(map[string]string{"property": "C09", "doc": clip(ds), "leading_spaces": strconv.Itoa(pad), "dest": d.name})
					for _, cuts := range [][]int{nil, {w - 1}, {w - 1, 2*w - 2}} {
						for len(cuts) > 0 && cuts[len(cuts)-1] >= len(doc) {
							cuts = cuts[:len(cuts)-1]
						}
						got := c09Stream(doc, d, cuts)
						o.count("window_sweep_decodes", 1)
						if got.panicd != "" || got.ok != buf.ok || (got.ok && got.snap != buf.snap) {
							o.violation("C09", "Decoder.Decode and Unmarshal disagree when a token crosses a refill of the stream buffer", map[string]string{
								"doc": ds, "leading_spaces": strconv.Itoa(pad), "dest": d.name, "cuts": fmt.Sprint(cuts), "stream": clip(got.String()), "buffer": clip(buf.String())})
							break
						}
					}
				}
			}
		}
	}
}

// model correspondence: the lifted scanner instance for a *bool destination, on the same chunkings
func c09BoolCases(o *Out) {
	var docs [][]byte
	enumStrings([]byte("truefalsn \n\tx,"), 0, func([]byte) {})
	for _, w := range []string{"true", "false", "null", " true", "\n\tfalse ", "  null\r", "tru", "t", "fals", "nul", "truE", "trux", "ttrue", "true true", "falsefalse", "nulll", "", " ", "x", ",true", "true,", "nil", "fal se", "\ttrue\n\n", "n", "f", "truetrue", "null,null"} {
		docs = append(docs, []byte(w))
	}
	alpha := []byte("truefalsn x")
	for i := 0; i < 300; i++ {
		n := 1 + o.rng.Intn(7)
		b := make([]byte, n)
		for j := range b {
			b[j] = alpha[o.rng.Intn(len(alpha))]
		}
		docs = append(docs, b)
	}
	for _, doc := range docs {
		var cutsets [][]int
		cutsets = append(cutsets, nil)
		for p := 1; p < len(doc); p++ {
			cutsets = append(cutsets, []int{p})
			for q := p + 1; q < len(doc); q++ {
				cutsets = append(cutsets, []int{p, q})
			}
		}
		if len(doc) > 1 {
			var all []int
			for p := 1; p < len(doc); p++ {
				all = append(all, p)
			}
			cutsets = append(cutsets, all)
		}
		for _, cuts := range cutsets {
			b := true
			marker := b
			dec := gojson.NewDecoder(&cutReader{b: doc, cuts: cuts, failAt: -1})
			var res string
			func() {
				defer func() {
					if rec := recover(); rec != nil {
						res = "PANIC"
					}
				}()
				// decode twice with different initial values to tell null (destination untouched) from a value
				err := dec.Decode(&b)
				if err != nil {
					res = "R"
					return
				}
				off := dec.InputOffset()
				b2 := false
				dec2 := gojson.NewDecoder(&cutReader{b: doc, cuts: cuts, failAt: -1})
				dec2.Decode(&b2)
				switch {
				case b == marker && b2 == false:
					res = "A null @" + strconv.FormatInt(off, 10)
				case b:
					res = "A true @" + strconv.FormatInt(off, 10)
				default:
					res = "A false @" + strconv.FormatInt(off, 10)
				}
			}()
			var cs []string
			for _, c := range cuts {
				cs = append(cs, strconv.Itoa(c))
			}
			o.emit("A", "c09.bool", [][]byte{doc, []byte(strings.Join(cs, " "))}, []byte(res), nil, false)
			o.count("bool_scanner_cases", 1)
		}
	}
}

// (3) concatenated documents, More, InputOffset, Token
func c09Sequences(o *Out, docs []string) {
	r := o.rng
	var valid []string
	for _, d := range docs {
		var probe interface{}
		if stdjson.Valid([]byte(d)) && len(d) < 400 && gojson.Unmarshal([]byte(d), &probe) == nil {
			valid = append(valid, d)
		}
	}
	nseq := 150
	if o.tier == "thorough" {
		nseq = 2500
	}
	for s := 0; s < nseq; s++ {
		k := 1 + r.Intn(6)
		var stream []byte
		var parts []string
		var ends []int
		for i := 0; i < k; i++ {
			d := valid[r.Intn(len(valid))]
			parts = append(parts, d)
			stream = append(stream, d...)
			// numbers and literals need a separator; put one everywhere
			stream = append(stream, []string{" ", "\n", "\t\n", "  "}[r.Intn(4)]...)
			ends = append(ends, len(stream))
		}
		var cuts []int
		switch r.Intn(4) {
		case 0:
		case 1:
			sz := 1 + r.Intn(17)
			for p := sz; p < len(stream); p += sz {
				cuts = append(cuts, p)
			}
		default:
			for i := 0; i < 1+r.Intn(4); i++ {
				cuts = append(cuts, 1+r.Intn(len(stream)))
			}
			sort.Ints(cuts)
		}
		o.current(map[string]string{"property": "C09", "stream": clip(string(stream)), "stream_hex": hx(stream), "cuts": fmt.Sprint(cuts)})
		gdec := gojson.NewDecoder(&cutReader{b: stream, cuts: cuts, failAt: -1})
		sdec := stdjson.NewDecoder(&cutReader{b: stream, cuts: cuts, failAt: -1})
		det := map[string]string{"stream": clip(string(stream)), "stream_hex": hx(stream), "cuts": fmt.Sprint(cuts)}
		bad := false
		for i := 0; i < k && !bad; i++ {
			if gm, sm := gdec.More(), sdec.More(); gm != sm {
				det["index"] = strconv.Itoa(i)
				o.violation("C09", fmt.Sprintf("More() = %v before document %d of %d (encoding/json: %v)", gm, i, k, sm), det)
				bad = true
				break
			}
			var gv, sv, bv interface{}
			gerr := gdec.Decode(&gv)
			serr := sdec.Decode(&sv)
			berr := gojson.Unmarshal([]byte(parts[i]), &bv)
			if gerr == nil && berr == nil && serr == nil && c09Snap(gv) != c09Snap(bv) && !utf8.Valid([]byte(parts[i])) && c09SameAfterUTF8Repair(c09Snap(gv), c09Snap(bv)) {
				o.known("BufferKeepsInvalidUTF8", fmt.Sprintf("%q in a stream", parts[i]))
			} else if gerr != nil || serr != nil || berr != nil || c09Snap(gv) != c09Snap(bv) {
				det["index"] = strconv.Itoa(i)
				det["got"], det["want"] = clip(c09Snap(gv)), clip(c09Snap(bv))
				det["err"] = fmt.Sprint(gerr)
				o.violation("C09", "a stream of concatenated documents does not decode to the sequence of the individual documents", det)
				bad = true
				break
			}
			off := gdec.InputOffset()
			lo := int64(prevEnd(ends, i) + len(strings.TrimRight(parts[i], " \t\r\n"))) // end of the value itself
			hi := int64(ends[i])
			if i+1 < k {
				hi = int64(ends[i]) + int64(len(parts[i+1])-len(strings.TrimLeft(parts[i+1], " \t\r\n")))
			}
			if off < lo || off > hi {
				det["index"] = strconv.Itoa(i)
				o.violation("C09", fmt.Sprintf("InputOffset() = %d after document %d, outside [%d,%d] (end of the value .. start of the next)", off, i, lo, hi), det)
				bad = true
			}
			o.count("sequence_documents", 1)
		}
		if !bad {
			if gm, sm := gdec.More(), sdec.More(); gm != sm {
				o.violation("C09", fmt.Sprintf("More() = %v after the last document (encoding/json: %v)", gm, sm), det)
			}
			var x interface{}
			if err := gdec.Decode(&x); err != io.EOF {
				det["err"] = fmt.Sprint(err)
				o.violation("C09", "Decode after the last document does not return io.EOF", det)
			}
		}
		// tokens of the first document under the same cuts
		d0 := []byte(parts[0])
		var c0 []int
		for _, c := range cuts {
			if c < len(d0) {
				c0 = append(c0, c)
			}
		}
		gt := c09Tokens(func() (interface{}, error) { return nil, nil }, d0, c0, true)
		st := c09Tokens(nil, d0, c0, false)
		o.count("token_sequences", 1)
		if gt != st {
			o.violation("C09", "Token() sequence differs from encoding/json's", map[string]string{"doc": clip(parts[0]), "doc_hex": hx(d0), "cuts": fmt.Sprint(c0), "got": clip(gt), "want": clip(st)})
		}
	}
}

func prevEnd(ends []int, i int) int {
	if i == 0 {
		return 0
	}
	return ends[i-1]
}

func c09Tokens(_ func() (interface{}, error), doc []byte, cuts []int, goj bool) (res string) {
	defer func() {
		if rec := recover(); rec != nil {
			res += " PANIC " + fmt.Sprint(rec)
		}
	}()
	var sb strings.Builder
	next := func() (interface{}, error) { return nil, io.EOF }
	if goj {
		dec := gojson.NewDecoder(&cutReader{b: doc, cuts: cuts, failAt: -1})
		next = func() (interface{}, error) { t, err := dec.Token(); return t, err }
	} else {
		dec := stdjson.NewDecoder(&cutReader{b: doc, cuts: cuts, failAt: -1})
		next = func() (interface{}, error) { t, err := dec.Token(); return t, err }
	}
	for i := 0; i < 10000; i++ {
		t, err := next()
		if err == io.EOF {
			sb.WriteString(" EOF")
			break
		}
		if err != nil {
			sb.WriteString(" ERR")
			break
		}
		fmt.Fprintf(&sb, " %T:%v", t, t)
	}
	s := sb.String()
	s = strings.ReplaceAll(s, "json.Delim", "Delim")
	return s
}
