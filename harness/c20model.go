package main

// Correspondence of Path.Extract with the evaluation model (coq/Model/PathEval.v):
// ops c20.eval (path text, document tree) and c20.hist (one Path value, a sequence
// of documents).  The implementation's answer must be the model's answer on every
// case, recursive descent and kind mismatches included; the theorems of
// Properties/C20.v say where the model equals the reference evaluation.

import (
	stdjson "encoding/json"
	"fmt"
	"math/rand"
	"strings"

	gojson "github.com/goccy/go-json"
)

// documents the tree model can carry: the tree holds keys and strings as they are after unescaping (the document
// may spell them with escapes: the walk must leave the text it hands out as it found it); ASCII, strings that are not
// JSON texts themselves
func c20PlainString(s string) bool {
	if s == "" {
		return true
	}
	for i := 0; i < len(s); i++ {
		c := s[i]
		if (c < 0x20 && c != '\n' && c != '\t') || c >= 0x7f || c == '<' || c == '>' || c == '&' {
			return false
		}
	}
	return !stdjson.Valid([]byte(s))
}

func c20Wire(w *strings.Builder, v interface{}) bool {
	switch x := v.(type) {
	case oobject:
		fmt.Fprintf(w, "O%d:", len(x))
		for _, m := range x {
			if m.k != "" && !c20PlainString(m.k) && !stdjson.Valid([]byte(m.k)) {
				return false
			}
			for i := 0; i < len(m.k); i++ {
				if c := m.k[i]; (c < 0x20 && c != '\n' && c != '\t') || c >= 0x7f {
					return false
				}
			}
			fmt.Fprintf(w, "0%d:%s", len(m.k), m.k)
			if !c20Wire(w, m.v) {
				return false
			}
		}
	case []interface{}:
		fmt.Fprintf(w, "A%d:", len(x))
		for _, e := range x {
			if !c20Wire(w, e) {
				return false
			}
		}
	case string:
		if !c20PlainString(x) {
			return false
		}
		fmt.Fprintf(w, "S%d:%s", len(x), x)
	case stdjson.Number:
		fmt.Fprintf(w, "N%d:%s", len(x), string(x))
	case bool:
		if x {
			w.WriteByte('T')
		} else {
			w.WriteByte('F')
		}
	case nil:
		w.WriteByte('Z')
	default:
		return false
	}
	return true
}

// the compact text the model writes for a tree (Model/Enc.marshal): strings and keys between plain quotes
func c20Plain(sb *strings.Builder, v interface{}) {
	switch x := v.(type) {
	case oobject:
		sb.WriteByte('{')
		for i, m := range x {
			if i > 0 {
				sb.WriteByte(',')
			}
			sb.WriteString(`"` + m.k + `":`)
			c20Plain(sb, m.v)
		}
		sb.WriteByte('}')
	case []interface{}:
		sb.WriteByte('[')
		for i, e := range x {
			if i > 0 {
				sb.WriteByte(',')
			}
			c20Plain(sb, e)
		}
		sb.WriteByte(']')
	case string:
		sb.WriteString(`"` + x + `"`)
	case stdjson.Number:
		sb.WriteString(string(x))
	case bool:
		if x {
			sb.WriteString("true")
		} else {
			sb.WriteString("false")
		}
	case nil:
		sb.WriteString("null")
	}
}

// one Extract as the model shows it: E, or O and every part followed by a line feed
func c20ModelObs(p *gojson.Path, doc []byte) string {
	var out [][]byte
	err := safeCall(func() error {
		var e error
		out, e = p.Extract(doc)
		return e
	})
	if err != nil {
		if strings.HasPrefix(err.Error(), "PANIC") {
			return "panic"
		}
		return "E"
	}
	var sb strings.Builder
	sb.WriteByte('O')
	for _, part := range out {
		if v, perr := parseOrdered(part); perr == nil && stdjson.Valid(part) {
			c20Plain(&sb, v)
		} else {
			sb.Write(part) // a string handed back without its quotes
		}
		sb.WriteByte('\n')
	}
	return sb.String()
}

var c20Names = []string{"a", "b", "c", "0", "k1"}

func c20GenDoc(r *rand.Rand, depth int) string {
	k := r.Intn(10)
	if depth <= 0 && k >= 4 {
		k = r.Intn(4)
	}
	switch k {
	case 0:
		return []string{"1", "0", "-2", "1.5", "1e2", "20"}[r.Intn(6)]
	case 1:
		return []string{`"s"`, `"zz"`, `""`, `"x y"`, `"a"`, `"x\ny"`, `"q\"q\\"`, `"\u0061\tb"`}[r.Intn(8)]
	case 2:
		return []string{"true", "false", "null"}[r.Intn(3)]
	case 3:
		return []string{"{}", "[]"}[r.Intn(2)]
	case 4, 5, 6:
		n := r.Intn(4)
		parts := make([]string, n)
		for i := range parts {
			parts[i] = genWS(r) + c20GenDoc(r, depth-1) + genWS(r)
		}
		return "[" + strings.Join(parts, ",") + "]"
	default:
		n := 1 + r.Intn(4)
		parts := make([]string, n)
		for i := range parts {
			name := c20Names[r.Intn(len(c20Names))]
			switch r.Intn(8) {
			case 0: // the same name, spelled with an escape
				name = fmt.Sprintf(`\u%04x`, name[0]) + name[1:]
			case 1: // other names that need unescaping
				name = []string{`k\ny`, `\"q`, `a\tb`, `\\`}[r.Intn(4)]
			}
			parts[i] = genWS(r) + `"` + name + `"` + genWS(r) + ":" + genWS(r) + c20GenDoc(r, depth-1)
		}
		return "{" + strings.Join(parts, ",") + "}"
	}
}

func c20GenPath(r *rand.Rand) string {
	var sb strings.Builder
	sb.WriteByte('$')
	n := r.Intn(5)
	for i := 0; i < n; i++ {
		switch r.Intn(10) {
		case 0, 1, 2:
			sb.WriteString("." + c20Names[r.Intn(len(c20Names))])
		case 3:
			sb.WriteString("['" + c20Names[r.Intn(len(c20Names))] + "']")
		case 4:
			if i == 0 || true {
				sb.WriteString(`."` + c20Names[r.Intn(len(c20Names))] + `"`)
			}
		case 5, 6:
			sb.WriteString(fmt.Sprintf("[%d]", r.Intn(4)))
		case 7:
			sb.WriteString("[*]")
		case 8:
			sb.WriteString(".." + c20Names[r.Intn(len(c20Names))])
		default:
			sb.WriteString([]string{"[-1]", "[7]", "[00]", "[+1]"}[r.Intn(4)])
		}
	}
	return sb.String()
}

func c20EmitEval(o *Out, ps string, doc string) bool {
	rv, err := parseOrdered([]byte(doc))
	if err != nil {
		return false
	}
	var w strings.Builder
	if !c20Wire(&w, rv) {
		o.count("model_cases_skipped_no_wire", 1)
		return false
	}
	p, perr := gojson.CreatePath(ps)
	obs := "B"
	if perr == nil {
		obs = c20ModelObs(p, []byte(doc))
	}
	if obs == "panic" {
		o.violation("C20", "Extract panicked", map[string]string{"path": ps, "doc": doc})
		return false
	}
	// the reference evaluation of the path on the same tree, in the model's notation
	if perr == nil {
		// the steps are read from the path text itself: the printed form of a path that ends in ..a is ..a.a
		stepText := ps[1:]
		if stepText == "" {
			stepText = "$"
		}
		if steps, ok := refSteps(stepText); ok && !strings.ContainsAny(ps, `'"`) {
			var rb strings.Builder
			rb.WriteByte('O')
			for _, x := range refEval(rv, steps, false) {
				c20Plain(&rb, x)
				rb.WriteByte('\n')
			}
			ref := rb.String()
			o.emit("A", "c20.eval", [][]byte{[]byte(ps), []byte(w.String())}, []byte(obs), []byte(ref), true)
			o.count("model_eval_cases_with_reference", 1)
		} else {
			o.emit("A", "c20.eval", [][]byte{[]byte(ps), []byte(w.String())}, []byte(obs), nil, false)
		}
	} else {
		o.emit("A", "c20.eval", [][]byte{[]byte(ps), []byte(w.String())}, []byte(obs), nil, false)
	}
	o.count("model_eval_cases", 1)
	switch {
	case obs == "E":
		o.hist("model_eval", "error")
	case obs == "O":
		o.hist("model_eval", "nothing selected")
	case obs == "B":
		o.hist("model_eval", "path rejected")
	default:
		o.hist("model_eval", fmt.Sprintf("%d parts", strings.Count(obs, "\n")))
	}
	return true
}

func c20ModelCases(o *Out, accepted map[string]string, paths []string) {
	thorough := o.tier == "thorough"
	// every accepted path of the enumeration on the fixed documents
	for _, ps := range paths {
		for _, doc := range c20Docs {
			c20EmitEval(o, ps, doc)
		}
	}
	// generated paths on generated documents (white space between the tokens, repeated names, empty containers)
	n := 6000
	if thorough {
		n = 60000
	}
	var docs []string
	for i := 0; i < 400; i++ {
		docs = append(docs, c20GenDoc(o.rng, 4))
	}
	for i := 0; i < n; i++ {
		ps := c20GenPath(o.rng)
		doc := docs[o.rng.Intn(len(docs))]
		if o.rng.Intn(4) == 0 {
			doc = c20Docs[o.rng.Intn(len(c20Docs))]
		}
		c20EmitEval(o, ps, doc)
	}
	// histories: one Path value, several documents (many of them failing half-way); the model gets the same sequence
	h := 1500
	if thorough {
		h = 15000
	}
	for i := 0; i < h; i++ {
		ps := c20GenPath(o.rng)
		p, err := gojson.CreatePath(ps)
		if err != nil {
			continue
		}
		k := 2 + o.rng.Intn(4)
		args := [][]byte{[]byte(ps)}
		var obs strings.Builder
		ok := true
		for j := 0; j < k && ok; j++ {
			doc := docs[o.rng.Intn(len(docs))]
			rv, perr := parseOrdered([]byte(doc))
			var w strings.Builder
			if perr != nil || !c20Wire(&w, rv) {
				ok = false
				break
			}
			args = append(args, []byte(w.String()))
			one := c20ModelObs(p, []byte(doc))
			if one == "panic" {
				o.violation("C20", "Extract panicked", map[string]string{"path": ps, "doc": doc})
				ok = false
				break
			}
			obs.WriteString(one)
			obs.WriteByte(';')
		}
		if ok {
			o.emit("A", "c20.hist", args, []byte(obs.String()), nil, false)
			o.count("model_history_cases", 1)
		}
	}
}
