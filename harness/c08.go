package main

// C08: encoding any acyclic value is safe; cyclic values give an error.
// Recursive and interface-bearing shapes with every field kind before and
// after the recursive / interface member, nesting depth 0..2000, cycles
// through pointers, maps, slices and interfaces, the four interpreters
// (plain, indent, colour, colour+indent) and marshal callbacks that allocate,
// force GC and grow the stack.  Every result is compared with encoding/json
// (acyclic) or must be an error (cyclic).  The run happens in a child process
// (a crash is attributed to the case), once more in a child built with
// -d=checkptr.

import (
	"bytes"
	"context"
	stdjson "encoding/json"
	"fmt"
	"math"
	"math/rand"
	"os"
	"os/exec"
	"reflect"
	"runtime"
	"strconv"
	"strings"
	"time"

	gojson "github.com/goccy/go-json"
)

func init() {
	props["C08"] = runC08
	props["C08child"] = runC08Child
	props["C08probe"] = runC08Probe
}

// callbacks that disturb the runtime while the interpreter holds raw pointers
type C08GC struct{ N int }

func c08Grow(n int) int {
	var pad [256]byte
	if n == 0 {
		return int(pad[0])
	}
	return c08Grow(n-1) + int(pad[1])
}

func (g C08GC) MarshalJSON() ([]byte, error) {
	if g.N%37 != 0 {
		return []byte(strconv.Itoa(g.N)), nil
	}
	junk := make([][]byte, 0, 64)
	for i := 0; i < 64; i++ {
		junk = append(junk, make([]byte, 1024))
	}
	runtime.GC()
	c08Grow(200) // grows and possibly moves the goroutine stack
	_ = junk
	return []byte(strconv.Itoa(g.N)), nil
}

type C08GCText struct{ N int }

func (g *C08GCText) MarshalText() ([]byte, error) {
	if g.N%40 != 0 {
		return []byte("t" + strconv.Itoa(g.N)), nil
	}
	runtime.GC()
	c08Grow(150)
	return []byte("t" + strconv.Itoa(g.N)), nil
}

// recursive shapes: every field kind before and after the recursive / interface member
type C08Node struct {
	A    int8
	Next *C08Node
	B    string
	I    interface{}
	C    []C08Node
	D    map[string]*C08Node
	E    float64
	G    C08GC
	T    *C08GCText
	F    [2]*C08Node
	Z    bool
	PI   *interface{} // a member of type *interface{}: its own opcode (OpInterfacePtr), its own frame bookkeeping
}

// recursive shapes with members of type *interface{} (opcode OpInterfacePtr) in different slot positions: the frame
// of the held value has to start behind the frame of the recursive call at every depth
type C08PI1 struct {
	V    *interface{}
	Next *C08PI1
}
type C08PI2 struct {
	Next *C08PI2
	Tag  string
	V    *interface{}
	N    int
}
type C08PI3 struct {
	Name  string
	Items []*interface{}
	Sub   *C08PI3
}
type C08PI4 struct {
	Meta *interface{}
	L, R *C08PI4
	M    map[string]*interface{}
	K    int
}

func c08PIValue(i int) *interface{} {
	var v interface{}
	switch i % 5 {
	case 0:
		v = i
	case 1:
		v = []interface{}{i, "x", true}
	case 2:
		v = map[string]interface{}{"k": i, "l": []int{1, 2}}
	case 3:
		v = C08Link{V: i, Next: &C08Link{V: i + 1}}
	default:
		v = "s" + strconv.Itoa(i)
	}
	return &v
}

func c08PIShapes(depth int) []interface{} {
	var a *C08PI1
	var b *C08PI2
	var c *C08PI3
	var d *C08PI4
	for i := 0; i < depth; i++ {
		a = &C08PI1{V: c08PIValue(i), Next: a}
		b = &C08PI2{Next: b, Tag: "t" + strconv.Itoa(i), V: c08PIValue(i + 1), N: i}
		c = &C08PI3{Name: "n" + strconv.Itoa(i), Items: []*interface{}{c08PIValue(i), nil, c08PIValue(i + 2)}, Sub: c}
		d = &C08PI4{Meta: c08PIValue(i + 3), L: d, M: map[string]*interface{}{"m": c08PIValue(i)}, K: i}
		if i%2 == 1 {
			d.R = &C08PI4{Meta: c08PIValue(i), K: -i}
		}
	}
	return []interface{}{a, b, c, d}
}

// a thin recursive shape for the deepest nestings (the indented text grows with the square of the depth)
type C08Thin struct {
	A    int8
	Next *C08Thin
	I    interface{}
	G    C08GC
}

// the plainest recursive shapes: every level is one recursive step of the same kind
type C08Link struct {
	V    int
	Next *C08Link
}
type C08Tree struct {
	Kids []C08Tree
	Tag  string
}

// an acyclic value in which one leaf (holding a nil interface) is reached twice, far below the
// level at which cycle detection starts
type C08Leaf struct{ I interface{} }
type C08Shared struct {
	Next *C08Shared
	A, B *C08Leaf
}

func c08SharedChain(depth int) *C08Shared {
	leaf := &C08Leaf{}
	n := &C08Shared{A: leaf, B: leaf}
	for i := 0; i < depth; i++ {
		n = &C08Shared{Next: n}
	}
	return n
}

func c08LinkChain(depth int) *C08Link {
	var n *C08Link
	for i := 0; i < depth; i++ {
		n = &C08Link{V: i, Next: n}
	}
	return n
}

func c08TreeChain(depth int) C08Tree {
	t := C08Tree{Tag: "leaf"}
	for i := 0; i < depth; i++ {
		t = C08Tree{Kids: []C08Tree{t}, Tag: "t" + strconv.Itoa(i%10)}
	}
	return t
}

func c08ThinChain(depth int) *C08Thin {
	var n *C08Thin
	for i := 0; i < depth; i++ {
		m := &C08Thin{A: int8(i), G: C08GC{i}}
		if i%3 == 1 {
			m.I = n
		} else {
			m.Next = n
		}
		n = m
	}
	return n
}

type C08Mut1 struct {
	X   string
	Two *C08Mut2
	I   interface{}
}
type C08Mut2 struct {
	One  []C08Mut1
	M    map[string]C08Mut1
	Y    int
	Back *C08Mut1
}

type C08Wrap struct {
	Before int
	V      interface{}
	After  string
}

func c08Chain(depth int, r interface{ Intn(int) int }) *C08Node {
	var n *C08Node
	for i := 0; i < depth; i++ {
		m := &C08Node{A: int8(i), B: "b" + strconv.Itoa(i%7), E: float64(i) / 4, G: C08GC{i}, Z: i%2 == 0}
		switch r.Intn(6) {
		case 0:
			m.Next = n
		case 1:
			if n != nil {
				m.C = []C08Node{*n}
			}
		case 2:
			m.D = map[string]*C08Node{"k": n}
		case 3:
			m.I = n
		case 4:
			m.F[1] = n
		default:
			if i < 6 {
				m.I = []interface{}{n, map[string]interface{}{"x": n}} // the value is a DAG: its encoding doubles here
			} else {
				m.I = []interface{}{n, map[string]interface{}{"x": i}}
			}
		}
		if i%5 == 0 {
			m.T = &C08GCText{i}
		}
		if i%3 == 1 {
			var held interface{} = []interface{}{i, "pi", map[string]interface{}{"k": true}}
			if i%2 == 0 {
				held = C08Link{V: i}
			}
			m.PI = &held
		}
		n = m
	}
	return n
}

func c08Mut(depth int) *C08Mut1 {
	var m *C08Mut1
	for i := 0; i < depth; i++ {
		// exactly one reference to the structure below (the encoding of a DAG is a tree)
		two := &C08Mut2{Y: i}
		switch {
		case m == nil:
		case i%3 == 0:
			two.One = []C08Mut1{*m}
		case i%3 == 1:
			two.M = map[string]C08Mut1{"m": *m}
		default:
			two.Back = m
		}
		m = &C08Mut1{X: "x" + strconv.Itoa(i), Two: two, I: map[string]interface{}{"d": i}}
	}
	return m
}

type c08Variant struct {
	name string
	f    func(v interface{}) ([]byte, error)
	std  func(v interface{}) ([]byte, error)
}

// the members of a map come in any order: compared as values
func (va c08Variant) unordered() bool { return strings.HasSuffix(va.name, "unordered map") }

// c08SameValue: two JSON texts denote the same value (numbers compared as written).  The layout is not compared:
// with UnorderedMap the indenting encoder puts the members of a map one level further left than encoding/json,
// which is a matter of C13, not of this property.
func c08SameValue(a, b []byte) bool {
	var x, y interface{}
	da := stdjson.NewDecoder(bytes.NewReader(a))
	da.UseNumber()
	db := stdjson.NewDecoder(bytes.NewReader(b))
	db.UseNumber()
	if da.Decode(&x) != nil || db.Decode(&y) != nil {
		return false
	}
	return reflect.DeepEqual(x, y)
}

func c08Variants() []c08Variant {
	strip := func(b []byte) []byte { return c13StripMarkers(b) }
	return []c08Variant{
		{"plain", func(v interface{}) ([]byte, error) { return gojson.Marshal(v) }, func(v interface{}) ([]byte, error) { return stdjson.Marshal(v) }},
		{"indent", func(v interface{}) ([]byte, error) { return gojson.MarshalIndent(v, "", " ") }, func(v interface{}) ([]byte, error) { return stdjson.MarshalIndent(v, "", " ") }},
		{"plain, no HTML escape", func(v interface{}) ([]byte, error) { return gojson.MarshalWithOption(v, gojson.DisableHTMLEscape()) }, func(v interface{}) ([]byte, error) {
			var b bytes.Buffer
			e := stdjson.NewEncoder(&b)
			e.SetEscapeHTML(false)
			err := e.Encode(v)
			return bytes.TrimSuffix(b.Bytes(), []byte("\n")), err
		}},
		{"indent, no HTML escape", func(v interface{}) ([]byte, error) {
			return gojson.MarshalIndentWithOption(v, "", " ", gojson.DisableHTMLEscape())
		}, func(v interface{}) ([]byte, error) {
			var b bytes.Buffer
			e := stdjson.NewEncoder(&b)
			e.SetEscapeHTML(false)
			e.SetIndent("", " ")
			err := e.Encode(v)
			return bytes.TrimSuffix(b.Bytes(), []byte("\n")), err
		}},
		{"colour", func(v interface{}) ([]byte, error) {
			b, err := gojson.MarshalWithOption(v, gojson.Colorize(c13Scheme()))
			return strip(b), err
		}, func(v interface{}) ([]byte, error) { return stdjson.Marshal(v) }},
		{"colour+indent", func(v interface{}) ([]byte, error) {
			b, err := gojson.MarshalIndentWithOption(v, "", " ", gojson.Colorize(c13Scheme()))
			return strip(b), err
		}, func(v interface{}) ([]byte, error) { return stdjson.MarshalIndent(v, "", " ") }},
	}
}

// ---- values that live on the goroutine stack while a callback moves the stack ----

type C08Mover struct{ N int }

func c08Scribble(depth int, done chan struct{}) {
	var pad [512]byte
	for i := range pad {
		pad[i] = 0xAA
	}
	if depth > 0 {
		c08Scribble(depth-1, nil)
	}
	if done != nil {
		done <- struct{}{}
	}
	_ = pad
}

var c08Sink [][]byte

func (m C08Mover) MarshalJSON() ([]byte, error) {
	c08Grow(1500) // needs ~400 KiB of stack: the stack is copied to a larger block and the old block (>= 32 KiB) goes back to the page heap
	// reuse what was freed: heap allocations filled with a pattern, and other goroutines' stacks
	c08Sink = c08Sink[:0]
	for i := 0; i < 512; i++ {
		b := make([]byte, 64<<10)
		for j := range b {
			b[j] = 0xAB
		}
		c08Sink = append(c08Sink, b)
	}
	done := make(chan struct{}, 16)
	for i := 0; i < 16; i++ {
		go c08Scribble(12, done)
	}
	for i := 0; i < 16; i++ {
		<-done
	}
	return []byte(strconv.Itoa(m.N)), nil
}

type C08Stack struct {
	A int64
	M C08Mover
	B int64
	S string
	C [4]int64
	P *int64
	Z int64
}

//go:noinline
func c08StackCase(seed int64, entry int) (string, string) {
	var x int64 = seed * 3
	// a local value: it stays on the stack only if nothing makes it escape (each entry point has its own function for that reason)
	v := C08Stack{A: seed, M: C08Mover{int(seed)}, B: seed + 1, S: "after", C: [4]int64{seed, seed + 1, seed + 2, seed + 3}, P: &x, Z: seed + 9}
	want := fmt.Sprintf(`{"A":%d,"M":%d,"B":%d,"S":"after","C":[%d,%d,%d,%d],"P":%d,"Z":%d}`, seed, seed, seed+1, seed, seed+1, seed+2, seed+3, seed*3, seed+9)
	got, err := gojson.Marshal(&v)
	if err != nil {
		return "ERR " + err.Error(), want
	}
	return string(got), want
}

//go:noinline
func c08StackCaseContext(seed int64) (string, string) {
	var x int64 = seed * 3
	v := C08Stack{A: seed, M: C08Mover{int(seed)}, B: seed + 1, S: "after", C: [4]int64{seed, seed + 1, seed + 2, seed + 3}, P: &x, Z: seed + 9}
	want := fmt.Sprintf(`{"A":%d,"M":%d,"B":%d,"S":"after","C":[%d,%d,%d,%d],"P":%d,"Z":%d}`, seed, seed, seed+1, seed, seed+1, seed+2, seed+3, seed*3, seed+9)
	got, err := gojson.MarshalContext(context.Background(), v)
	if err != nil {
		return "ERR " + err.Error(), want
	}
	return string(got), want
}

//go:noinline
func c08StackCaseIndent(seed int64) (string, string) {
	var x int64 = seed * 3
	v := C08Stack{A: seed, M: C08Mover{int(seed)}, B: seed + 1, S: "after", C: [4]int64{seed, seed + 1, seed + 2, seed + 3}, P: &x, Z: seed + 9}
	want := fmt.Sprintf(`{"A":%d,"M":%d,"B":%d,"S":"after","C":[%d,%d,%d,%d],"P":%d,"Z":%d}`, seed, seed, seed+1, seed, seed+1, seed+2, seed+3, seed*3, seed+9)
	got, err := gojson.MarshalIndent(&v, "", "")
	if err != nil {
		return "ERR " + err.Error(), want
	}
	got = bytes.ReplaceAll(bytes.ReplaceAll(got, []byte("\n"), nil), []byte(": "), []byte(":"))
	return string(got), want
}

func runC08Child(o *Out) {
	r := o.rng
	skip, _ := strconv.Atoi(os.Getenv("C08_SKIP"))
	caseNo := 0
	vars := c08Variants()
	extra := c08ExtraVariants()
	var timing map[string]time.Duration // C08_TIMING=1: where the time goes, on stderr
	if os.Getenv("C08_TIMING") != "" {
		timing = map[string]time.Duration{}
		defer func() {
			for k, v := range timing {
				fmt.Fprintf(os.Stderr, "C08 timing %8.2fs %s\n", v.Seconds(), k)
			}
		}()
	}
	noExtra := os.Getenv("C08_NOEXTRA") != "" // for timing comparisons
	extraMode := 0                            // 0: the six interpreter variants only; 1: one further entry point in rotation; 2: every further entry point
	exact := true                             // compare with encoding/json (the generated types at the end are only required not to crash or panic: their text is C01's business)
	run := func(desc string, v interface{}, cyclic bool) {
		caseNo++
		if caseNo <= skip {
			return
		}
		os.WriteFile(o.dir+"/progress", []byte(strconv.Itoa(caseNo)), 0o644)
		if !strings.HasPrefix(desc, "generated") && !strings.HasPrefix(desc, "position sweep") {
			o.count("cases:"+strings.TrimRight(c08TimingKey(desc), " ,"), 1)
		}
		if timing != nil {
			t0 := time.Now()
			defer func() { timing[c08TimingKey(desc)] += time.Since(t0) }()
		}
		use := vars
		em := extraMode
		if noExtra {
			em = 0
		}
		switch em {
		case 1:
			use = append(append([]c08Variant(nil), vars...), extra[caseNo%len(extra)])
		case 2:
			use = append(append([]c08Variant(nil), vars...), extra...)
		}
		for _, va := range use {
			if len(use) > len(vars) {
				o.count("entry_point:"+va.name, 1) // counters, not histograms: the parent takes over the counters of a child
			}
			o.current(map[string]string{"property": "C08", "case": desc, "variant": va.name, "cyclic": strconv.FormatBool(cyclic)})
			got, err := c01Safe(func() ([]byte, error) { return va.f(v) })
			o.count("encodes", 1)
			if cyclic {
				if err == nil {
					o.violation("C08", "a cyclic value was encoded without an error", map[string]string{"case": desc, "variant": va.name, "output_bytes": strconv.Itoa(len(got))})
				} else if strings.HasPrefix(err.Error(), "PANIC") {
					o.violation("C08", "a cyclic value made the encoder panic", map[string]string{"case": desc, "variant": va.name, "panic": clipN(err.Error(), 300)})
				}
				continue
			}
			want, werr := c01Safe(func() ([]byte, error) { return va.std(v) })
			if werr != nil {
				continue // encoding/json gives up (its own depth limit): nothing to compare with
			}
			if err != nil && (exact || strings.HasPrefix(err.Error(), "PANIC")) {
				o.violation("C08", "an acyclic value failed to encode", map[string]string{"case": desc, "variant": va.name, "error": clipN(err.Error(), 300)})
				continue
			}
			if exact && va.unordered() && c08SameValue(got, want) {
				continue
			}
			if exact && !tgSameJSON(got, want) {
				o.violation("C08", "an acyclic value was encoded wrongly", map[string]string{"case": desc, "variant": va.name,
					"first_difference": strconv.Itoa(firstDiff(got, want)), "got_at_difference": around(got, firstDiff(got, want)), "want_at_difference": around(want, firstDiff(got, want))})
			}
		}
	}
	depths := []int{0, 1, 2, 3, 4, 5, 8, 13, 50, 200, 998, 999, 1000, 1001, 1002, 1003, 2000}
	if o.tier == "thorough" {
		for d := 6; d < 60; d++ {
			depths = append(depths, d)
		}
	}
	open := os.Getenv("AUDIT_OPEN") == "1"
	step := func() bool { // the bookkeeping of run() for the strata that do not go through it: true = skip this case
		caseNo++
		if caseNo <= skip {
			return true
		}
		os.WriteFile(o.dir+"/progress", []byte(strconv.Itoa(caseNo)), 0o644)
		return false
	}
	for _, d := range depths {
		// the further entry points: all of them on the shallow values, one in rotation up to depth 200, beyond that one in
		// rotation on the plainest chains only (the texts are quadratic in the depth)
		deepMode := func(m int) {
			if d > 200 {
				extraMode = m
			}
		}
		extraMode = 1
		if d <= 13 {
			extraMode = 2
		}
		deepMode(0)
		th := c08ThinChain(d)
		run(fmt.Sprintf("thin chain depth %d", d), th, false)
		run(fmt.Sprintf("thin chain depth %d in interface", d), C08Wrap{1, th, "after"}, false)
		deepMode(1)
		run(fmt.Sprintf("link chain depth %d", d), c08LinkChain(d), false)
		deepMode(0)
		run(fmt.Sprintf("link chain depth %d twice in a slice", d), []*C08Link{c08LinkChain(d), c08LinkChain(d / 2)}, false)
		run(fmt.Sprintf("tree chain depth %d", d), c08TreeChain(d), false)
		run(fmt.Sprintf("shared leaf below %d links", d), c08SharedChain(d), false)
		if d <= 50 {
			for k, v := range c08PIShapes(d) {
				run(fmt.Sprintf("*interface{} members, shape %d, depth %d", k+1, d), v, false)
			}
			run(fmt.Sprintf("callbacks that call the library again, depth %d", d), c08ReenterChain(d), false)
		}
		ni := c08NIChain(d, r)
		if d <= 200 || d == 1000 || d == 1001 || d == 2000 || o.tier == "thorough" {
			deepMode(1)
			run(fmt.Sprintf("non-empty interface members, depth %d", d), ni, false)
			deepMode(0)
		}
		if ni != nil && d <= 200 {
			run(fmt.Sprintf("non-empty interface members, depth %d, held in a non-empty interface", d), struct {
				A int
				S C08Shape
			}{1, ni}, false)
		}
		for k, v := range c08IfaceFirstShapes(d) {
			if d > 200 && d != 1000 && !open {
				if d < 1001 {
					continue
				}
				// open finding candidate (audit A8): the address of an interface member at offset 0 is the address of the
				// struct, which OpRecursive has just put on SeenPtr: 'encountered a cycle' for an acyclic value
				o.count("skipped_without_AUDIT_OPEN:interface_at_offset_0_below_1000_levels", 1)
				continue
			}
			run(fmt.Sprintf("interface member at offset 0 of a recursive struct, shape %d, depth %d", k+1, d), v, false)
		}
		if d <= 200 {
			run(fmt.Sprintf("text-marshaler map keys with callbacks, depth %d", d), c08KeyChain(d), false)
		}
		runtime.GC()
		if d > 200 {
			continue // the fat shapes below produce text quadratic in the depth times their width
		}
		extraMode = 1 // every one of these values has callbacks that collect: one further entry point in rotation
		for rep := 0; rep < 3; rep++ {
			n := c08Chain(d, r)
			run(fmt.Sprintf("chain depth %d rep %d", d, rep), n, false)
			if n != nil {
				run(fmt.Sprintf("chain depth %d rep %d by value", d, rep), *n, false)
				run(fmt.Sprintf("chain depth %d rep %d in wrapper", d, rep), C08Wrap{1, n, "after"}, false)
				run(fmt.Sprintf("chain depth %d rep %d in []interface{}", d, rep), []interface{}{n, "x", n}, false)
			}
		}
		if d <= 13 {
			extraMode = 2
		}
		m := c08Mut(d)
		run(fmt.Sprintf("mutual depth %d", d), m, false)
		run(fmt.Sprintf("mutual depth %d in map", d), map[string]interface{}{"m": m, "n": []*C08Mut1{m}}, false)
		// plain deep nesting without named types
		var nest interface{} = 1
		for i := 0; i < d; i++ {
			if i%2 == 0 {
				nest = []interface{}{nest}
			} else {
				nest = map[string]interface{}{"k": nest}
			}
		}
		run(fmt.Sprintf("interface nesting depth %d", d), nest, false)
	}
	// every field kind before and after every kind of recursive / interface member
	extraMode = 0
	if o.tier == "thorough" {
		extraMode = 1
	}
	c08PositionSweep(o, r, run)
	// cycles
	extraMode = 2
	{
		{
			n := c08NIChain(40, r)
			t := n
			for t.Next != nil {
				t = t.Next
			}
			t.S = n
			run("cycle through a non-empty interface", n, true)
			t.S = C08Poly{C08Dot(1), C08Named{"back": C08Sq{W: 1, In: n}}}
			run("cycle through a slice, a map and a struct held in non-empty interfaces", n, true)
			p := &C08PI1{}
			var back interface{} = p
			p.Next = &C08PI1{V: &back}
			run("cycle through a *interface{} member", p, true)
			k := &C08KM{A: 1}
			k.M = map[C08Key]*C08KM{3: {I: map[C08Key]interface{}{4: k}}}
			run("cycle through maps with text-marshaler keys", k, true)
			f := &C08IF1{}
			f.I = f
			run("cycle through an interface member at offset 0", f, true)
			f2 := &C08IF1{I: 1}
			f2.Next = &C08IF1{I: []interface{}{f2}}
			run("cycle through a slice in an interface member at offset 0", f2, true)
		}
		a := &C08Node{A: 1}
		a.Next = a
		run("cycle: node.Next = node", a, true)
		b := &C08Node{A: 2}
		c := &C08Node{A: 3, Next: b}
		b.D = map[string]*C08Node{"c": c}
		run("cycle through a map", b, true)
		d := &C08Node{A: 4}
		d.I = d
		run("cycle through an interface", d, true)
		e := &C08Node{A: 5}
		e.F[0] = &C08Node{A: 6, Next: e}
		extraMode = 0 // a collection at each of the thousand levels: the six interpreter variants are enough
		run("cycle through an array of pointers", e, true)
		extraMode = 2
		s := []interface{}{nil}
		s[0] = s
		run("slice that contains itself", s, true)
		mm := map[string]interface{}{}
		mm["self"] = mm
		run("map that contains itself", mm, true)
		m1 := &C08Mut1{X: "x"}
		m1.Two = &C08Mut2{Back: m1}
		run("mutual cycle", m1, true)
		long := c08Chain(300, r)
		tail := long
		for tail.Next != nil || tail.I != nil && false {
			if tail.Next == nil {
				break
			}
			tail = tail.Next
		}
		tail.Next = long
		run("long cycle", long, true)
	}
	extraMode = 0
	for _, m := range c08ReenterMismatch {
		o.violation("C08", "an encode started from inside a marshal callback went wrong", map[string]string{"detail": clipN(m, 400)})
	}
	o.count("reentrant_inner_mismatches", int64(len(c08ReenterMismatch)))
	// an encode that fails at some depth, then encodes that must be right
	t0 := time.Now()
	c08ErrorThenReuse(o, append(append([]c08Variant(nil), vars...), extra...), step)
	if timing != nil {
		timing["failing encode then canary"] = time.Since(t0)
	}
	// stack-resident values with a callback that moves the stack
	nstack := 24 + 12
	if open {
		nstack += 8
	} else {
		// open finding candidate (audit A8): MarshalNoEscape keeps the address of a value on the goroutine stack as a
		// uintptr; after a callback has moved the stack the fields are read from the old block (garbage, panic or fault)
		o.count("skipped_without_AUDIT_OPEN:MarshalNoEscape_of_a_stack_resident_value", 8)
	}
	for i := 0; i < nstack; i++ {
		caseNo++
		if caseNo <= skip {
			continue
		}
		os.WriteFile(o.dir+"/progress", []byte(strconv.Itoa(caseNo)), 0o644)
		// in a fresh goroutine whose stack has first been grown to 64 KiB or more
		type res struct{ got, want string }
		ch := make(chan res)
		if i >= 24 && open {
			o.checkpoint() // the next case may end the process: what has been found so far is merged by the parent
		}
		entry := []string{"Marshal(&v)", "Marshal(&v)", "MarshalContext(v)", "MarshalIndent(&v)"}[i%4]
		if i >= 24 {
			switch {
			case i >= 36:
				entry = []string{"MarshalNoEscape(v)", "MarshalNoEscape(&v)"}[i%2]
			case i%3 == 0:
				entry = "Encoder.Encode(&v)"
			case i%3 == 1:
				entry = "Encoder.Encode(&v), indented"
			default:
				entry = "MarshalWithOption(v, UnorderedMap, DisableHTMLEscape)"
			}
		}
		o.current(map[string]string{"property": "C08", "case": "stack-resident value, callback grows the stack", "entry_point": entry, "iteration": strconv.Itoa(i)})
		go func(i int) {
			defer func() {
				if e := recover(); e != nil {
					ch <- res{"PANIC: " + clipN(fmt.Sprint(e), 200), "(no panic)"}
				}
			}()
			c08Grow(150)
			var g, w string
			switch entry {
			case "MarshalNoEscape(v)":
				g, w = c08StackCaseNoEscape(int64(1000+i), true)
			case "MarshalNoEscape(&v)":
				g, w = c08StackCaseNoEscape(int64(1000+i), false)
			case "Encoder.Encode(&v)":
				g, w = c08StackCaseEncoder(int64(1000+i), false)
			case "Encoder.Encode(&v), indented":
				g, w = c08StackCaseEncoder(int64(1000+i), true)
			case "MarshalWithOption(v, UnorderedMap, DisableHTMLEscape)":
				g, w = c08StackCaseOption(int64(1000 + i))
			case "MarshalIndent(&v)":
				g, w = c08StackCaseIndent(int64(1000 + i))
			case "MarshalContext(v)":
				g, w = c08StackCaseContext(int64(1000 + i))
			default:
				g, w = c08StackCase(int64(1000+i), 0)
			}
			ch <- res{g, w}
		}(i)
		rr := <-ch
		got, want := rr.got, rr.want
		o.count("stack_resident_cases", 1)
		o.count("stack_resident_entry_point:"+entry, 1)
		if got != want {
			o.violation("C08", "a value on the goroutine stack was read from stale memory after a callback moved the stack", map[string]string{
				"entry_point": entry, "got": clipN(got, 300), "want": want, "iteration": strconv.Itoa(i)})
		}
	}
	// generated types that contain recursive named types, with GC callbacks
	ntypes := 300
	if o.tier == "thorough" {
		ntypes = 4000
	}
	exact = false
	for i := 0; i < ntypes; i++ {
		t := tgType(r, 3, tgOpts{named: true})
		if t.Kind() == reflect.Interface || tgKnownBadAnywhere(reflect.PtrTo(t), 0) != "" {
			continue
		}
		v := reflect.New(t)
		tgValue(r, v.Elem(), 0, 20, false)
		if c01CrashClass(t, v, 0) != "" {
			continue
		}
		run("generated "+clipN(t.String(), 200), C08Wrap{i, v.Interface(), "z"}, false)
	}
}

// witnesses of recorded findings that kill the process: run alone in a child
type C08RecMap map[string]C08RecMap
type C08RecSlice []C08RecSlice

func c08Probes() map[string]interface{} {
	return map[string]interface{}{
		"RecursiveNonStructType":       C08RecMap{"a": nil, "b": C08RecMap{"c": C08RecMap{}}},
		"RecursiveNonStructType/slice": C08RecSlice{nil, C08RecSlice{C08RecSlice{}}},
	}
}

// child: exit 0 if the witness encodes like encoding/json, 1 if not (a crash is any other status)
func runC08Probe(o *Out) {
	v := c08Probes()[os.Getenv("C08_PROBE")]
	got, err := gojson.Marshal(v)
	want, _ := stdjson.Marshal(v)
	if err != nil || !bytes.Equal(got, want) {
		os.Exit(1)
	}
}

func runC08(o *Out) {
	c08CycleCases(o)
	if self, err := os.Executable(); err == nil {
		for name := range c08Probes() {
			cctx, cancel := context.WithTimeout(context.Background(), 120*time.Second)
			cmd := exec.CommandContext(cctx, self, "C08probe", "quick", "0", o.dir+"/probe")
			cmd.Env = append(os.Environ(), "C08_PROBE="+name, "VERIF_AS_LIMIT_MB=8000")
			err := cmd.Run()
			cancel()
			if err != nil {
				o.known(strings.SplitN(name, "/", 2)[0], "witness "+name+" in c08Probes: "+err.Error())
			} else {
				o.count("probe_witness_encodes_correctly:"+name, 1)
			}
		}
	}
	bins := []struct{ name, bin string }{{"normal", ""}}
	if b := os.Getenv("VERIF_CHECKPTR_BIN"); b != "" {
		bins = append(bins, struct{ name, bin string }{"checkptr", b})
	} else {
		o.Notes = append(o.Notes, "VERIF_CHECKPTR_BIN not set: checkptr build not exercised")
	}
	self, _ := os.Executable()
	for _, bn := range bins {
		bin := bn.bin
		if bin == "" {
			bin = self
		}
		startAll := time.Now()
		skip := 0
		for attempt := 0; attempt < 15; attempt++ {
			dir := o.dir + "/" + bn.name + strconv.Itoa(attempt)
			limit := 240 * time.Second
			if o.tier == "thorough" {
				limit = 2400 * time.Second
			}
			cctx, cancel := context.WithTimeout(context.Background(), limit)
			cmd := exec.CommandContext(cctx, bin, "C08child", o.tier, strconv.FormatInt(o.seed, 10), dir)
			cmd.Env = append(os.Environ(), "C08_SKIP="+strconv.Itoa(skip), "VERIF_AS_LIMIT_MB=8000")
			var eb bytes.Buffer
			cmd.Stdout, cmd.Stderr = &eb, &eb
			err := cmd.Run()
			cancel()
			if err == nil {
				mergeChild(o, dir)
				o.count("child_runs_completed:"+bn.name, 1)
				break
			}
			det := map[string]string{"build": bn.name, "detail": err.Error(), "output": clipN(eb.String(), 900)}
			if b, e := os.ReadFile(dir + "/current.json"); e == nil {
				det["case"] = string(b)
			}
			o.violation("C08", "the encoder crashed or hung the process", det)
			if _, e := os.Stat(dir + "/stats.json"); e == nil {
				mergeChild(o, dir) // the child wrote down what it had found before it died (the cases up to there are skipped next time)
			}
			if time.Since(startAll) > 2*limit {
				break
			}
			b, e := os.ReadFile(dir + "/progress")
			if e != nil {
				break
			}
			n, _ := strconv.Atoi(string(b))
			skip = n
		}
	}
}

// ======================================================================================================
// Audit A8: dimensions of the quantifier the strata above did not reach.
//   - entry points: MarshalNoEscape, MarshalContext, Encoder (compact, indented, EncodeContext) and the
//     UnorderedMap option (its own branches in OpMap/OpMapKey/OpMapValue of all four interpreters)
//   - members of a non-empty interface type (OpInterface takes the dynamic type from the itab)
//   - an interface member at offset 0 of a recursive struct (its address is the address of the struct)
//   - marshal callbacks that call the library again, text-marshaler map keys with GC callbacks
//   - every field kind before and after every kind of recursive / interface member (position sweep)
//   - an encode that fails at some depth followed by encodes that must be right (the pooled context is reused)
// ======================================================================================================

func c08TimingKey(desc string) string {
	if strings.HasPrefix(desc, "position sweep") {
		if i := strings.Index(desc, "; M "); i > 0 {
			desc = "position sweep " + desc[i:]
			if j := strings.Index(desc, "; A"); j > 0 {
				return desc[:j]
			}
		}
	}
	if i := strings.IndexAny(desc, "0123456789:"); i > 0 {
		desc = desc[:i]
	}
	return desc
}

func c08ExtraVariants() []c08Variant {
	stdPlain := func(v interface{}) ([]byte, error) { return stdjson.Marshal(v) }
	stdIndent := func(v interface{}) ([]byte, error) { return stdjson.MarshalIndent(v, "", " ") }
	trim := func(b []byte) []byte { return bytes.TrimSuffix(b, []byte("\n")) }
	return []c08Variant{
		{name: "MarshalNoEscape", f: func(v interface{}) ([]byte, error) { return gojson.MarshalNoEscape(v) }, std: stdPlain},
		{name: "MarshalContext", f: func(v interface{}) ([]byte, error) { return gojson.MarshalContext(context.Background(), v) }, std: stdPlain},
		{name: "Encoder", f: func(v interface{}) ([]byte, error) {
			var b bytes.Buffer
			err := gojson.NewEncoder(&b).Encode(v)
			return trim(b.Bytes()), err
		}, std: stdPlain},
		{name: "Encoder, indent", f: func(v interface{}) ([]byte, error) {
			var b bytes.Buffer
			e := gojson.NewEncoder(&b)
			e.SetIndent("", " ")
			err := e.Encode(v)
			return trim(b.Bytes()), err
		}, std: stdIndent},
		{name: "EncodeContext, no HTML escape", f: func(v interface{}) ([]byte, error) {
			var b bytes.Buffer
			e := gojson.NewEncoder(&b)
			e.SetEscapeHTML(false)
			err := e.EncodeContext(context.Background(), v)
			return trim(b.Bytes()), err
		}, std: func(v interface{}) ([]byte, error) {
			var b bytes.Buffer
			e := stdjson.NewEncoder(&b)
			e.SetEscapeHTML(false)
			err := e.Encode(v)
			return trim(b.Bytes()), err
		}},
		{name: "plain, unordered map", f: func(v interface{}) ([]byte, error) { return gojson.MarshalWithOption(v, gojson.UnorderedMap()) }, std: stdPlain},
		{name: "indent, unordered map", f: func(v interface{}) ([]byte, error) {
			return gojson.MarshalIndentWithOption(v, "", " ", gojson.UnorderedMap())
		}, std: stdIndent},
		{name: "colour, unordered map", f: func(v interface{}) ([]byte, error) {
			b, err := gojson.MarshalWithOption(v, gojson.Colorize(c13Scheme()), gojson.UnorderedMap())
			return c13StripMarkers(b), err
		}, std: stdPlain},
	}
}

// ---- members of a non-empty interface type ----

type C08Shape interface{ Sides() int }

type C08Sq struct { // a struct value in the interface (stored behind a pointer)
	W  int
	In *C08NI
}

func (C08Sq) Sides() int { return 4 }

type C08Tri struct{ A, B, C int8 } // the interface holds the pointer

func (*C08Tri) Sides() int { return 3 }

type C08Poly []C08Shape

func (p C08Poly) Sides() int { return len(p) }

type C08Named map[string]C08Shape

func (C08Named) Sides() int { return 0 }

type C08Dot int

func (C08Dot) Sides() int { return 0 }

type C08NI struct {
	A    int16
	S    C08Shape
	Next *C08NI
	B    string
	Kids []C08Shape
	M    map[string]C08Shape
	Z    bool
}

func (*C08NI) Sides() int { return 1 }

func c08NIChain(depth int, r interface{ Intn(int) int }) *C08NI {
	var n *C08NI
	for i := 0; i < depth; i++ {
		m := &C08NI{A: int16(i), B: "b" + strconv.Itoa(i%5), Z: i%2 == 1}
		k := r.Intn(8)
		if n == nil {
			k = 7
		}
		if depth > 200 && (k == 4 || k == 6) {
			k = 1 // every enclosing map keeps a copy of the text below it until it has sorted its members: no maps in the deepest chains
		}
		switch k {
		case 0:
			m.Next = n
		case 1:
			m.S = n
		case 2:
			m.S = C08Sq{W: i, In: n}
		case 3:
			m.Kids = []C08Shape{C08Dot(i), n, &C08Tri{1, 2, int8(i)}, nil}
		case 4:
			m.M = map[string]C08Shape{"k": n, "d": C08Dot(i)}
		case 5:
			m.S = C08Poly{n, C08Dot(i)}
		case 6:
			m.S = C08Named{"x": n}
		default:
			m.Next = n
			m.S = &C08Tri{int8(i), 0, 1}
			m.Kids = []C08Shape{C08Sq{W: i}}
		}
		n = m
	}
	return n
}

// ---- an interface member at offset 0 of a recursive struct ----

type C08IF1 struct {
	I    interface{}
	Next *C08IF1
}
type C08IF2 struct { // the interface is the first member of the first member
	W    C08Leaf
	Next *C08IF2
	N    int
}
type C08IF3 struct {
	A    [2]interface{}
	Kids []C08IF3
}
type C08IF4 struct {
	S    C08Shape
	Next *C08IF4
}
type C08IF5 struct {
	C08Leaf
	Next *C08IF5
}

func c08IfaceFirstShapes(depth int) []interface{} {
	var a *C08IF1
	var b *C08IF2
	c := C08IF3{A: [2]interface{}{"leaf", nil}}
	var d *C08IF4
	var e *C08IF5
	for i := 0; i < depth; i++ {
		a = &C08IF1{I: i, Next: a}
		b = &C08IF2{W: C08Leaf{I: "w" + strconv.Itoa(i%3)}, Next: b, N: i}
		c = C08IF3{A: [2]interface{}{i, []interface{}{i}}, Kids: []C08IF3{c}}
		d = &C08IF4{S: C08Dot(i), Next: d}
		e = &C08IF5{C08Leaf: C08Leaf{I: map[string]interface{}{"k": i}}, Next: e}
	}
	return []interface{}{a, b, c, d, e}
}

// ---- marshal callbacks that call the library again ----

var c08ReenterMismatch []string // what an inner call got wrong (the outer comparison cannot see it: both libraries run the same callback)

type C08Reenter struct {
	Mode int
	V    *C08Link
	T    *C08Thin
}

func (x C08Reenter) MarshalJSON() ([]byte, error) {
	var got, want []byte
	var err error
	switch x.Mode % 6 {
	case 0:
		got, err = gojson.Marshal(x.V)
		want, _ = stdjson.Marshal(x.V)
	case 1:
		got, err = gojson.MarshalIndent(x.T, "", "  ")
		want, _ = stdjson.MarshalIndent(x.T, "", "  ")
	case 2:
		var b bytes.Buffer
		err = gojson.NewEncoder(&b).Encode(x.T)
		got = bytes.TrimSuffix(b.Bytes(), []byte("\n"))
		want, _ = stdjson.Marshal(x.T)
	case 3:
		got, err = gojson.MarshalWithOption(map[string]interface{}{"v": x.V, "t": x.T, "n": x.Mode}, gojson.UnorderedMap())
		want, _ = stdjson.Marshal(map[string]interface{}{"v": x.V, "t": x.T, "n": x.Mode})
		if c08SameValue(got, want) {
			got = want // the text handed on must not depend on the iteration order
		}
	case 4:
		got, err = gojson.MarshalContext(context.Background(), x.V)
		want, _ = stdjson.Marshal(x.V)
	default:
		got, err = gojson.MarshalNoEscape(x.T)
		want, _ = stdjson.Marshal(x.T)
	}
	if err != nil {
		c08ReenterMismatch = append(c08ReenterMismatch, fmt.Sprintf("mode %d: error %v", x.Mode%6, err))
		return nil, err
	}
	if !bytes.Equal(got, want) && len(c08ReenterMismatch) < 20 {
		c08ReenterMismatch = append(c08ReenterMismatch, fmt.Sprintf("mode %d: first difference at %d: got %s want %s", x.Mode%6, firstDiff(got, want), around(got, firstDiff(got, want)), around(want, firstDiff(got, want))))
	}
	return got, nil
}

type C08RE struct {
	A    int
	R    C08Reenter
	Next *C08RE
	P    *C08Reenter
	I    interface{}
	Z    string
}

// c08ThinQuiet: a thin chain whose callbacks do not collect (a collection in every callback of every inner call costs seconds)
func c08ThinQuiet(depth, base int) *C08Thin {
	n := c08ThinChain(depth)
	for t := n; t != nil; {
		t.G = C08GC{base*37 + 1}
		if t.Next != nil {
			t = t.Next
		} else {
			t, _ = t.I.(*C08Thin)
		}
	}
	return n
}

func c08ReenterChain(depth int) *C08RE {
	var n *C08RE
	for i := 0; i < depth; i++ {
		m := &C08RE{A: i, R: C08Reenter{Mode: i, V: c08LinkChain(i % 4), T: c08ThinQuiet(i%5, i)}, Z: "z"}
		switch i % 3 {
		case 0:
			m.Next = n
		case 1:
			m.I = n
		default:
			m.I = []interface{}{n, C08Reenter{Mode: i + 1, V: c08LinkChain(2)}}
		}
		if i%4 == 2 {
			// two levels of re-entrance: the inner value holds a callback of the same kind
			inner := c08ThinQuiet(2, i)
			inner.I = C08Reenter{Mode: i + 2, V: c08LinkChain(1), T: c08ThinQuiet(3, i)}
			if i%16 == 2 {
				inner.G = C08GC{37} // a collection and a stack move inside the inner call
			}
			m.P = &C08Reenter{Mode: 1, T: inner}
		}
		n = m
	}
	return n
}

// ---- map keys that are text marshalers with callbacks, in a recursive map ----

type C08Key int

func (k C08Key) MarshalText() ([]byte, error) {
	if k%61 == 0 {
		runtime.GC()
		c08Grow(120)
	}
	return []byte("k" + strconv.Itoa(int(k))), nil
}

type C08KM struct {
	A int
	M map[C08Key]*C08KM
	I interface{}
	B string
}

func c08KeyChain(depth int) *C08KM {
	var n *C08KM
	for i := 0; i < depth; i++ {
		m := &C08KM{A: i, B: "b"}
		switch i % 3 {
		case 0:
			m.M = map[C08Key]*C08KM{C08Key(i): n, C08Key(i + 1): nil, C08Key(i + 2): {A: -i}}
		case 1:
			m.I = map[C08Key]interface{}{C08Key(i): n, C08Key(i + 3): i}
		default:
			m.I = n
			m.M = map[C08Key]*C08KM{}
		}
		n = m
	}
	return n
}

// ---- every field kind before and after every kind of recursive / interface member ----

type c08Kind struct {
	name string
	t    reflect.Type
	mk   func(i int) interface{} // a populated value of the kind (the other state is the zero value)
}

func c08SweepKinds() []c08Kind {
	type pair struct {
		X int
		Y string
	}
	type one struct{ X int8 }
	return []c08Kind{
		{"bool", reflect.TypeOf(false), func(i int) interface{} { return true }},
		{"int8", reflect.TypeOf(int8(0)), func(i int) interface{} { return int8(-i - 1) }},
		{"int64", reflect.TypeOf(int64(0)), func(i int) interface{} { return int64(i) << 40 }},
		{"uint16", reflect.TypeOf(uint16(0)), func(i int) interface{} { return uint16(65535 - i) }},
		{"float32", reflect.TypeOf(float32(0)), func(i int) interface{} { return float32(i) + 0.25 }},
		{"string", reflect.TypeOf(""), func(i int) interface{} { return "s<" + strconv.Itoa(i) + ">" }},
		{"[]byte", reflect.TypeOf([]byte(nil)), func(i int) interface{} { return []byte{1, 2, byte(i)} }},
		{"[]int32", reflect.TypeOf([]int32(nil)), func(i int) interface{} { return []int32{int32(i), -1} }},
		{"[2]string", reflect.TypeOf([2]string{}), func(i int) interface{} { return [2]string{"a", strconv.Itoa(i)} }},
		{"[0]int", reflect.TypeOf([0]int{}), func(i int) interface{} { return [0]int{} }},
		{"map[string]int", reflect.TypeOf(map[string]int(nil)), func(i int) interface{} { return map[string]int{"b": i, "a": 1} }},
		{"*int", reflect.TypeOf((*int)(nil)), func(i int) interface{} { x := i; return &x }},
		{"*string", reflect.TypeOf((*string)(nil)), func(i int) interface{} { x := "p"; return &x }},
		{"struct", reflect.TypeOf(pair{}), func(i int) interface{} { return pair{i, "y"} }},
		{"*struct", reflect.TypeOf((*one)(nil)), func(i int) interface{} { return &one{int8(i)} }},
		{"interface{}", tgIface, func(i int) interface{} {
			return []interface{}{i, "x", map[string]interface{}{"k": nil}, []interface{}{1.5, "x"}, int8(i)}[i%5]
		}},
		{"marshaler", reflect.TypeOf(C08GC{}), func(i int) interface{} {
			if i%16 == 5 {
				return C08GC{37}
			}
			return C08GC{i*37 + 1}
		}},
		{"*text marshaler", reflect.TypeOf((*C08GCText)(nil)), func(i int) interface{} { return &C08GCText{i*40 + 1} }},
		{"json.Number", reflect.TypeOf(stdjson.Number("")), func(i int) interface{} { return stdjson.Number(strconv.Itoa(i) + ".5") }},
		{"[]interface{}", reflect.TypeOf([]interface{}(nil)), func(i int) interface{} { return []interface{}{i, nil, "e"} }},
		{"map[string]interface{}", reflect.TypeOf(map[string]interface{}(nil)), func(i int) interface{} { return map[string]interface{}{"z": i, "y": []interface{}{}} }},
		{"non-empty interface", reflect.TypeOf((*C08Shape)(nil)).Elem(), func(i int) interface{} {
			return []C08Shape{C08Dot(i), &C08Tri{1, 2, 3}, C08Sq{W: i}, C08Poly{C08Dot(1)}}[i%4]
		}},
	}
}

func c08SweepMembers(r interface{ Intn(int) int }) []c08Kind {
	return []c08Kind{
		{"*recursive", reflect.TypeOf((*C08Link)(nil)), func(i int) interface{} { return c08LinkChain(1 + i%3) }},
		{"*fat recursive", reflect.TypeOf((*C08Node)(nil)), func(i int) interface{} {
			g := C08GC{i*37 + 1}
			if i%16 == 3 {
				g = C08GC{37} // collects
			}
			leaf := &C08Node{A: 1, B: "leaf", G: C08GC{1}, I: []interface{}{i, map[string]interface{}{"k": "v"}}, PI: c08PIValue(i)}
			return &C08Node{A: int8(i), G: g, T: &C08GCText{i*40 + 1}, I: leaf, C: []C08Node{{G: C08GC{2}, Next: leaf}}, D: map[string]*C08Node{"d": leaf, "n": nil}, F: [2]*C08Node{nil, leaf}}
		}},
		{"[]recursive", reflect.TypeOf([]C08Tree(nil)), func(i int) interface{} { return []C08Tree{c08TreeChain(i % 3), {Tag: "t"}} }},
		{"map of *recursive", reflect.TypeOf(map[string]*C08Link(nil)), func(i int) interface{} {
			return map[string]*C08Link{"a": c08LinkChain(2), "b": nil}
		}},
		{"[2]*recursive", reflect.TypeOf([2]*C08Link{}), func(i int) interface{} { return [2]*C08Link{nil, c08LinkChain(2)} }},
		{"interface{} holding recursive", tgIface, func(i int) interface{} {
			switch i % 3 {
			case 0:
				return c08ThinQuiet(3+i%3, i)
			case 1:
				return map[string]interface{}{"k": []interface{}{c08TreeChain(2), i}}
			}
			return C08Link{V: i, Next: c08LinkChain(1)}
		}},
		{"*interface{}", reflect.TypeOf((*interface{})(nil)), func(i int) interface{} { return c08PIValue(i) }},
		{"non-empty interface holding recursive", reflect.TypeOf((*C08Shape)(nil)).Elem(), func(i int) interface{} { return c08NIChain(2+i%3, r) }},
		{"*recursive with non-empty interfaces", reflect.TypeOf((*C08NI)(nil)), func(i int) interface{} { return c08NIChain(1+i%4, r) }},
		{"*recursive with callbacks that re-enter", reflect.TypeOf((*C08RE)(nil)), func(i int) interface{} { return c08ReenterChain(1 + i%3) }},
	}
}

func c08PositionSweep(o *Out, r interface{ Intn(int) int }, run func(desc string, v interface{}, cyclic bool)) {
	kinds := c08SweepKinds()
	members := c08SweepMembers(r)
	seen := map[string]bool{}
	n := 0
	one := func(bi, mi, ai int) {
		b, m, a := kinds[bi], members[mi], kinds[ai]
		key := fmt.Sprintf("%d/%d/%d", bi, mi, ai)
		if seen[key] {
			return
		}
		seen[key] = true
		t := reflect.StructOf([]reflect.StructField{{Name: "B", Type: b.t}, {Name: "M", Type: m.t}, {Name: "A", Type: a.t}})
		if cls := tgKnownBadAnywhere(reflect.PtrTo(t), 0); cls != "" {
			o.count("position_sweep_skipped_for_recorded_finding:"+cls, 1)
			return
		}
		n++
		o.count("position_sweep_types", 1)
		o.count("position_sweep_member:"+m.name, 1)
		for state := 0; state < 2; state++ {
			if state == 1 && o.tier != "thorough" && n%3 != 0 {
				continue // the mostly-empty state: every third type
			}
			v := reflect.New(t)
			if state == 0 || n%2 == 0 {
				v.Elem().Field(0).Set(reflect.ValueOf(b.mk(n)))
			}
			if state == 0 || n%4 == 1 {
				v.Elem().Field(2).Set(reflect.ValueOf(a.mk(n + 1)))
			}
			if state == 0 || n%5 == 0 {
				v.Elem().Field(1).Set(reflect.ValueOf(m.mk(n)))
			}
			desc := fmt.Sprintf("position sweep: struct{B %s; M %s; A %s}, state %d", b.name, m.name, a.name, state)
			switch (n + state) % 3 {
			case 0:
				run(desc+", by pointer", v.Interface(), false)
			case 1:
				run(desc+", by value", v.Elem().Interface(), false)
			default:
				run(desc+", in an interface member", C08Wrap{n, v.Interface(), "after"}, false)
			}
		}
	}
	for mi := range members {
		for ki := range kinds {
			if o.tier != "thorough" && strings.Contains(members[mi].name, "re-enter") && ki%3 != mi%3 {
				continue // every callback of this member runs both libraries on its inner value
			}
			// every kind before the member and every kind after it; the other neighbour rotates
			one(ki, mi, (ki+mi+1)%len(kinds))
			one((ki*7+mi+3)%len(kinds), mi, ki)
		}
	}
	if o.tier == "thorough" {
		for mi := range members {
			for bi := range kinds {
				for ai := range kinds {
					one(bi, mi, ai)
				}
			}
		}
	}
}

// ---- an encode that fails at some depth, then encodes that must be right ----

type C08FailText struct{ N int }

func (f C08FailText) MarshalText() ([]byte, error) { return nil, fmt.Errorf("text refused %d", f.N) }

// c08Poisoned returns a value that cannot be encoded (the reason sits at the bottom, depth levels down), the name of the
// reason and, where the value can be repaired in place, the function that does it
func c08Poisoned(depth, poison int) (*C08Node, string, func()) {
	var cure func()
	q := C08GC{1} // does not collect
	bottom := &C08Node{A: -1, B: "bottom", G: q}
	name := ""
	switch poison {
	case 0:
		bottom.I = TgMErr{Fail: true}
		name = "MarshalJSON error in an interface member"
		cure = func() { bottom.I = TgMErr{} }
	case 1:
		bottom.E = math.NaN()
		name = "NaN"
		cure = func() { bottom.E = 1.5 }
	case 2:
		bottom.I = make(chan int)
		name = "a channel in an interface member"
	case 3:
		bottom.I = map[string]interface{}{"a": 1, "b": TgMErr{Fail: true}, "c": []interface{}{2}}
		name = "MarshalJSON error inside a map inside an interface member"
	case 4:
		bottom.D = map[string]*C08Node{"x": {I: func() {}, G: q}, "a": {A: 3, G: q}}
		name = "a function value below a map"
	case 5:
		bottom.I = map[C08FailText]int{{1}: 1}
		name = "MarshalText error in a map key"
	case 6:
		bottom.Next = bottom
		name = "a cycle"
		cure = func() { bottom.Next = nil }
	default:
		bottom.C = []C08Node{{A: 1, G: q}, {I: []interface{}{1, C08FailText{2}}, G: q}}
		name = "MarshalText error below a slice"
	}
	n := bottom
	for i := 0; i < depth; i++ {
		m := &C08Node{A: int8(i), B: "b", E: 0.5, Z: true, G: q}
		if i == depth/2 {
			m.G = C08GC{37} // one collection and stack move on the way down
		}
		k := i % 5
		if depth > 300 {
			k = 0 // the wide links make the text quadratic
		}
		switch k {
		case 0:
			m.Next = n
		case 1:
			m.I = n
		case 2:
			m.D = map[string]*C08Node{"k": n, "a": {A: 1, G: q}}
		case 3:
			m.C = []C08Node{{A: 2, G: q}, *n}
		default:
			m.I = map[string]interface{}{"p": []interface{}{n}}
		}
		n = m
	}
	return n, name, cure
}

func c08ErrorThenReuse(o *Out, vars []c08Variant, skipped func() bool) {
	q := C08GC{1}
	canary := C08Wrap{7, []interface{}{c08LinkChain(3), c08TreeChain(2), map[string]interface{}{"b": c08ThinQuiet(4, 1), "a": []int{1, 2}},
		&C08Node{A: 1, B: "x", G: q, I: &C08Node{G: q, D: map[string]*C08Node{"k": {A: 2, G: q}}}, F: [2]*C08Node{nil, {A: 3, G: q}}}, c08NIChain(4, rand.New(rand.NewSource(5)))}, "z"}
	wants := make([][]byte, len(vars))
	for i, va := range vars {
		wants[i], _ = va.std(canary)
	}
	depths := []int{0, 1, 2, 5, 60, 1001}
	for _, d := range depths {
		for poison := 0; poison < 8; poison++ {
			if d > 300 && o.tier != "thorough" && poison != 0 && poison != 1 && poison != 6 {
				continue
			}
			if skipped() {
				continue
			}
			v, name, cure := c08Poisoned(d, poison)
			for i, va := range vars {
				if d > 300 && o.tier != "thorough" && i%3 != poison%3 {
					continue
				}
				o.current(map[string]string{"property": "C08", "case": "failing encode then canary", "failure": name, "depth": strconv.Itoa(d), "variant": va.name})
				_, werr := c01Safe(func() ([]byte, error) { return va.std(v) })
				if werr == nil {
					o.count("error_then_reuse_oracle_has_no_error", 1)
					continue
				}
				_, err := c01Safe(func() ([]byte, error) { return va.f(v) })
				o.count("error_then_reuse_cases", 1)
				o.count("error_then_reuse:"+name, 1)
				det := map[string]string{"failure": name, "depth": strconv.Itoa(d), "variant": va.name}
				if err == nil {
					o.violation("C08", "a value encoding/json refuses was encoded without an error", det)
				} else if strings.HasPrefix(err.Error(), "PANIC") {
					det["panic"] = clipN(err.Error(), 300)
					o.violation("C08", "a value that cannot be encoded made the encoder panic", det)
				}
				if cure != nil && i%2 == 0 {
					// the caller repairs the value and tries again: the very addresses the failed call has seen
					cure()
					got, err := c01Safe(func() ([]byte, error) { return va.f(v) })
					want, werr := c01Safe(func() ([]byte, error) { return va.std(v) })
					o.count("error_then_repaired_value", 1)
					if werr == nil && (err != nil || !(tgSameJSON(got, want) || va.unordered() && c08SameValue(got, want))) {
						det["repaired_error"] = fmt.Sprint(err)
						o.violation("C08", "after an encode that failed, the repaired value was not encoded like encoding/json does", det)
					}
					v, name, cure = c08Poisoned(d, poison)
				}
				// the same entry point again (it takes the context the failed call gave back), and every other one
				for j := 0; j < len(vars); j++ {
					k := (i + j) % len(vars)
					if j > 1 && (i+j)%4 != 0 {
						continue
					}
					got, err := c01Safe(func() ([]byte, error) { return vars[k].f(canary) })
					o.count("error_then_reuse_canaries", 1)
					ok := err == nil && (tgSameJSON(got, wants[k]) || vars[k].unordered() && c08SameValue(got, wants[k]))
					if !ok {
						det["canary_variant"] = vars[k].name
						if err != nil {
							det["canary_error"] = clipN(err.Error(), 300)
						} else {
							det["first_difference"] = strconv.Itoa(firstDiff(got, wants[k]))
							det["got_at_difference"], det["want_at_difference"] = around(got, firstDiff(got, wants[k])), around(wants[k], firstDiff(got, wants[k]))
						}
						o.violation("C08", "after an encode that failed, an acyclic value was encoded wrongly", det)
						break
					}
				}
			}
		}
	}
}

// ---- stack-resident values through the other entry points ----

//go:noinline
func c08StackCaseEncoder(seed int64, indent bool) (string, string) {
	var x int64 = seed * 3
	v := C08Stack{A: seed, M: C08Mover{int(seed)}, B: seed + 1, S: "after", C: [4]int64{seed, seed + 1, seed + 2, seed + 3}, P: &x, Z: seed + 9}
	want := fmt.Sprintf(`{"A":%d,"M":%d,"B":%d,"S":"after","C":[%d,%d,%d,%d],"P":%d,"Z":%d}`, seed, seed, seed+1, seed, seed+1, seed+2, seed+3, seed*3, seed+9)
	var b bytes.Buffer
	e := gojson.NewEncoder(&b)
	if indent {
		e.SetIndent("", " ")
	}
	if err := e.Encode(&v); err != nil {
		return "ERR " + err.Error(), want
	}
	got := bytes.ReplaceAll(bytes.ReplaceAll(bytes.ReplaceAll(b.Bytes(), []byte("\n"), nil), []byte(": "), []byte(":")), []byte(" "), nil)
	return string(got), want
}

//go:noinline
func c08StackCaseOption(seed int64) (string, string) {
	var x int64 = seed * 3
	v := C08Stack{A: seed, M: C08Mover{int(seed)}, B: seed + 1, S: "after", C: [4]int64{seed, seed + 1, seed + 2, seed + 3}, P: &x, Z: seed + 9}
	want := fmt.Sprintf(`{"A":%d,"M":%d,"B":%d,"S":"after","C":[%d,%d,%d,%d],"P":%d,"Z":%d}`, seed, seed, seed+1, seed, seed+1, seed+2, seed+3, seed*3, seed+9)
	got, err := gojson.MarshalWithOption(v, gojson.UnorderedMap(), gojson.DisableHTMLEscape())
	if err != nil {
		return "ERR " + err.Error(), want
	}
	return string(got), want
}

// MarshalNoEscape is the entry point that leaves the value on the stack by design
//
//go:noinline
func c08StackCaseNoEscape(seed int64, byValue bool) (string, string) {
	var x int64 = seed * 3
	v := C08Stack{A: seed, M: C08Mover{int(seed)}, B: seed + 1, S: "after", C: [4]int64{seed, seed + 1, seed + 2, seed + 3}, P: &x, Z: seed + 9}
	want := fmt.Sprintf(`{"A":%d,"M":%d,"B":%d,"S":"after","C":[%d,%d,%d,%d],"P":%d,"Z":%d}`, seed, seed, seed+1, seed, seed+1, seed+2, seed+3, seed*3, seed+9)
	var got []byte
	var err error
	if byValue {
		got, err = gojson.MarshalNoEscape(v)
	} else {
		got, err = gojson.MarshalNoEscape(&v)
	}
	if err != nil {
		return "ERR " + err.Error(), want
	}
	return string(got), want
}
