package main

// C08: encoding any acyclic value is safe; cyclic values give an error.
// Recursive and interface-bearing shapes with every field kind before and
// after the recursive / interface member, nesting depth 0..2000, cycles
// through pointers, maps, slices and interfaces, the four interpreters
// (plain, indent, colour, colour+indent) and marshal callbacks that allocate,
// force GC and grow the stack.  Every result is compared with encoding/json
// (acyclic) or must be an error (cyclic).  The run happens in a child process
// (a crash is attributed to the case), once more in a child built with
// -d=checkptr.

import (
	"bytes"
	"context"
	stdjson "encoding/json"
	"fmt"
	"os"
	"os/exec"
	"reflect"
	"runtime"
	"strconv"
	"strings"
	"time"

	gojson "github.com/goccy/go-json"
)

func init() {
	props["C08"] = runC08
	props["C08child"] = runC08Child
	props["C08probe"] = runC08Probe
}

// callbacks that disturb the runtime while the interpreter holds raw pointers
type C08GC struct{ N int }

func c08Grow(n int) int {
	var pad [256]byte
	if n == 0 {
		return int(pad[0])
	}
	return c08Grow(n-1) + int(pad[1])
}

func (g C08GC) MarshalJSON() ([]byte, error) {
	if g.N%37 != 0 {
		return []byte(strconv.Itoa(g.N)), nil
	}
	junk := make([][]byte, 0, 64)
	for i := 0; i < 64; i++ {
		junk = append(junk, make([]byte, 1024))
	}
	runtime.GC()
	c08Grow(200) // grows and possibly moves the goroutine stack
	_ = junk
	return []byte(strconv.Itoa(g.N)), nil
}

type C08GCText struct{ N int }

func (g *C08GCText) MarshalText() ([]byte, error) {
	if g.N%40 != 0 {
		return []byte("t" + strconv.Itoa(g.N)), nil
	}
	runtime.GC()
	c08Grow(150)
	return []byte("t" + strconv.Itoa(g.N)), nil
}

// recursive shapes: every field kind before and after the recursive / interface member
type C08Node struct {
	A    int8
	Next *C08Node
	B    string
	I    interface{}
	C    []C08Node
	D    map[string]*C08Node
	E    float64
	G    C08GC
	T    *C08GCText
	F    [2]*C08Node
	Z    bool
	PI   *interface{} // a member of type *interface{}: its own opcode (OpInterfacePtr), its own frame bookkeeping
}

// recursive shapes with members of type *interface{} (opcode OpInterfacePtr) in different slot positions: the frame
// of the held value has to start behind the frame of the recursive call at every depth
type C08PI1 struct {
	V    *interface{}
	Next *C08PI1
}
type C08PI2 struct {
	Next *C08PI2
	Tag  string
	V    *interface{}
	N    int
}
type C08PI3 struct {
	Name  string
	Items []*interface{}
	Sub   *C08PI3
}
type C08PI4 struct {
	Meta *interface{}
	L, R *C08PI4
	M    map[string]*interface{}
	K    int
}

func c08PIValue(i int) *interface{} {
	var v interface{}
	switch i % 5 {
	case 0:
		v = i
	case 1:
		v = []interface{}{i, "x", true}
	case 2:
		v = map[string]interface{}{"k": i, "l": []int{1, 2}}
	case 3:
		v = C08Link{V: i, Next: &C08Link{V: i + 1}}
	default:
		v = "s" + strconv.Itoa(i)
	}
	return &v
}

func c08PIShapes(depth int) []interface{} {
	var a *C08PI1
	var b *C08PI2
	var c *C08PI3
	var d *C08PI4
	for i := 0; i < depth; i++ {
		a = &C08PI1{V: c08PIValue(i), Next: a}
		b = &C08PI2{Next: b, Tag: "t" + strconv.Itoa(i), V: c08PIValue(i + 1), N: i}
		c = &C08PI3{Name: "n" + strconv.Itoa(i), Items: []*interface{}{c08PIValue(i), nil, c08PIValue(i + 2)}, Sub: c}
		d = &C08PI4{Meta: c08PIValue(i + 3), L: d, M: map[string]*interface{}{"m": c08PIValue(i)}, K: i}
		if i%2 == 1 {
			d.R = &C08PI4{Meta: c08PIValue(i), K: -i}
		}
	}
	return []interface{}{a, b, c, d}
}

// a thin recursive shape for the deepest nestings (the indented text grows with the square of the depth)
type C08Thin struct {
	A    int8
	Next *C08Thin
	I    interface{}
	G    C08GC
}

// the plainest recursive shapes: every level is one recursive step of the same kind
type C08Link struct {
	V    int
	Next *C08Link
}
type C08Tree struct {
	Kids []C08Tree
	Tag  string
}

// an acyclic value in which one leaf (holding a nil interface) is reached twice, far below the
// level at which cycle detection starts
type C08Leaf struct{ I interface{} }
type C08Shared struct {
	Next *C08Shared
	A, B *C08Leaf
}

func c08SharedChain(depth int) *C08Shared {
	leaf := &C08Leaf{}
	n := &C08Shared{A: leaf, B: leaf}
	for i := 0; i < depth; i++ {
		n = &C08Shared{Next: n}
	}
	return n
}

func c08LinkChain(depth int) *C08Link {
	var n *C08Link
	for i := 0; i < depth; i++ {
		n = &C08Link{V: i, Next: n}
	}
	return n
}

func c08TreeChain(depth int) C08Tree {
	t := C08Tree{Tag: "leaf"}
	for i := 0; i < depth; i++ {
		t = C08Tree{Kids: []C08Tree{t}, Tag: "t" + strconv.Itoa(i%10)}
	}
	return t
}

func c08ThinChain(depth int) *C08Thin {
	var n *C08Thin
	for i := 0; i < depth; i++ {
		m := &C08Thin{A: int8(i), G: C08GC{i}}
		if i%3 == 1 {
			m.I = n
		} else {
			m.Next = n
		}
		n = m
	}
	return n
}

type C08Mut1 struct {
	X   string
	Two *C08Mut2
	I   interface{}
}
type C08Mut2 struct {
	One  []C08Mut1
	M    map[string]C08Mut1
	Y    int
	Back *C08Mut1
}

type C08Wrap struct {
	Before int
	V      interface{}
	After  string
}

func c08Chain(depth int, r interface{ Intn(int) int }) *C08Node {
	var n *C08Node
	for i := 0; i < depth; i++ {
		m := &C08Node{A: int8(i), B: "b" + strconv.Itoa(i%7), E: float64(i) / 4, G: C08GC{i}, Z: i%2 == 0}
		switch r.Intn(6) {
		case 0:
			m.Next = n
		case 1:
			if n != nil {
				m.C = []C08Node{*n}
			}
		case 2:
			m.D = map[string]*C08Node{"k": n}
		case 3:
			m.I = n
		case 4:
			m.F[1] = n
		default:
			if i < 6 {
				m.I = []interface{}{n, map[string]interface{}{"x": n}} // the value is a DAG: its encoding doubles here
			} else {
				m.I = []interface{}{n, map[string]interface{}{"x": i}}
			}
		}
		if i%5 == 0 {
			m.T = &C08GCText{i}
		}
		if i%3 == 1 {
			var held interface{} = []interface{}{i, "pi", map[string]interface{}{"k": true}}
			if i%2 == 0 {
				held = C08Link{V: i}
			}
			m.PI = &held
		}
		n = m
	}
	return n
}

func c08Mut(depth int) *C08Mut1 {
	var m *C08Mut1
	for i := 0; i < depth; i++ {
		// exactly one reference to the structure below (the encoding of a DAG is a tree)
		two := &C08Mut2{Y: i}
		switch {
		case m == nil:
		case i%3 == 0:
			two.One = []C08Mut1{*m}
		case i%3 == 1:
			two.M = map[string]C08Mut1{"m": *m}
		default:
			two.Back = m
		}
		m = &C08Mut1{X: "x" + strconv.Itoa(i), Two: two, I: map[string]interface{}{"d": i}}
	}
	return m
}

type c08Variant struct {
	name string
	f    func(v interface{}) ([]byte, error)
	std  func(v interface{}) ([]byte, error)
}

func c08Variants() []c08Variant {
	strip := func(b []byte) []byte { return c13StripMarkers(b) }
	return []c08Variant{
		{"plain", func(v interface{}) ([]byte, error) { return gojson.Marshal(v) }, func(v interface{}) ([]byte, error) { return stdjson.Marshal(v) }},
		{"indent", func(v interface{}) ([]byte, error) { return gojson.MarshalIndent(v, "", " ") }, func(v interface{}) ([]byte, error) { return stdjson.MarshalIndent(v, "", " ") }},
		{"plain, no HTML escape", func(v interface{}) ([]byte, error) { return gojson.MarshalWithOption(v, gojson.DisableHTMLEscape()) }, func(v interface{}) ([]byte, error) {
			var b bytes.Buffer
			e := stdjson.NewEncoder(&b)
			e.SetEscapeHTML(false)
			err := e.Encode(v)
			return bytes.TrimSuffix(b.Bytes(), []byte("\n")), err
		}},
		{"indent, no HTML escape", func(v interface{}) ([]byte, error) {
			return gojson.MarshalIndentWithOption(v, "", " ", gojson.DisableHTMLEscape())
		}, func(v interface{}) ([]byte, error) {
			var b bytes.Buffer
			e := stdjson.NewEncoder(&b)
			e.SetEscapeHTML(false)
			e.SetIndent("", " ")
			err := e.Encode(v)
			return bytes.TrimSuffix(b.Bytes(), []byte("\n")), err
		}},
		{"colour", func(v interface{}) ([]byte, error) {
			b, err := gojson.MarshalWithOption(v, gojson.Colorize(c13Scheme()))
			return strip(b), err
		}, func(v interface{}) ([]byte, error) { return stdjson.Marshal(v) }},
		{"colour+indent", func(v interface{}) ([]byte, error) {
			b, err := gojson.MarshalIndentWithOption(v, "", " ", gojson.Colorize(c13Scheme()))
			return strip(b), err
		}, func(v interface{}) ([]byte, error) { return stdjson.MarshalIndent(v, "", " ") }},
	}
}

// ---- values that live on the goroutine stack while a callback moves the stack ----

type C08Mover struct{ N int }

func c08Scribble(depth int, done chan struct{}) {
	var pad [512]byte
	for i := range pad {
		pad[i] = 0xAA
	}
	if depth > 0 {
		c08Scribble(depth-1, nil)
	}
	if done != nil {
		done <- struct{}{}
	}
	_ = pad
}

var c08Sink [][]byte

func (m C08Mover) MarshalJSON() ([]byte, error) {
	c08Grow(1500) // needs ~400 KiB of stack: the stack is copied to a larger block and the old block (>= 32 KiB) goes back to the page heap
	// reuse what was freed: heap allocations filled with a pattern, and other goroutines' stacks
	c08Sink = c08Sink[:0]
	for i := 0; i < 512; i++ {
		b := make([]byte, 64<<10)
		for j := range b {
			b[j] = 0xAB
		}
		c08Sink = append(c08Sink, b)
	}
	done := make(chan struct{}, 16)
	for i := 0; i < 16; i++ {
		go c08Scribble(12, done)
	}
	for i := 0; i < 16; i++ {
		<-done
	}
	return []byte(strconv.Itoa(m.N)), nil
}

type C08Stack struct {
	A int64
	M C08Mover
	B int64
	S string
	C [4]int64
	P *int64
	Z int64
}

//go:noinline
func c08StackCase(seed int64, entry int) (string, string) {
	var x int64 = seed * 3
	// a local value: it stays on the stack only if nothing makes it escape (each entry point has its own function for that reason)
	v := C08Stack{A: seed, M: C08Mover{int(seed)}, B: seed + 1, S: "after", C: [4]int64{seed, seed + 1, seed + 2, seed + 3}, P: &x, Z: seed + 9}
	want := fmt.Sprintf(`{"A":%d,"M":%d,"B":%d,"S":"after","C":[%d,%d,%d,%d],"P":%d,"Z":%d}`, seed, seed, seed+1, seed, seed+1, seed+2, seed+3, seed*3, seed+9)
	got, err := gojson.Marshal(&v)
	if err != nil {
		return "ERR " + err.Error(), want
	}
	return string(got), want
}

//go:noinline
func c08StackCaseContext(seed int64) (string, string) {
	var x int64 = seed * 3
	v := C08Stack{A: seed, M: C08Mover{int(seed)}, B: seed + 1, S: "after", C: [4]int64{seed, seed + 1, seed + 2, seed + 3}, P: &x, Z: seed + 9}
	want := fmt.Sprintf(`{"A":%d,"M":%d,"B":%d,"S":"after","C":[%d,%d,%d,%d],"P":%d,"Z":%d}`, seed, seed, seed+1, seed, seed+1, seed+2, seed+3, seed*3, seed+9)
	got, err := gojson.MarshalContext(context.Background(), v)
	if err != nil {
		return "ERR " + err.Error(), want
	}
	return string(got), want
}

//go:noinline
func c08StackCaseIndent(seed int64) (string, string) {
	var x int64 = seed * 3
	v := C08Stack{A: seed, M: C08Mover{int(seed)}, B: seed + 1, S: "after", C: [4]int64{seed, seed + 1, seed + 2, seed + 3}, P: &x, Z: seed + 9}
	want := fmt.Sprintf(`{"A":%d,"M":%d,"B":%d,"S":"after","C":[%d,%d,%d,%d],"P":%d,"Z":%d}`, seed, seed, seed+1, seed, seed+1, seed+2, seed+3, seed*3, seed+9)
	got, err := gojson.MarshalIndent(&v, "", "")
	if err != nil {
		return "ERR " + err.Error(), want
	}
	got = bytes.ReplaceAll(bytes.ReplaceAll(got, []byte("\n"), nil), []byte(": "), []byte(":"))
	return string(got), want
}

func runC08Child(o *Out) {
	r := o.rng
	skip, _ := strconv.Atoi(os.Getenv("C08_SKIP"))
	caseNo := 0
	vars := c08Variants()
	exact := true // compare with encoding/json (the generated types at the end are only required not to crash or panic: their text is C01's business)
	run := func(desc string, v interface{}, cyclic bool) {
		caseNo++
		if caseNo <= skip {
			return
		}
		os.WriteFile(o.dir+"/progress", []byte(strconv.Itoa(caseNo)), 0o644)
		for _, va := range vars {
			o.current(map[string]string{"property": "C08", "case": desc, "variant": va.name, "cyclic": strconv.FormatBool(cyclic)})
			got, err := c01Safe(func() ([]byte, error) { return va.f(v) })
			o.count("encodes", 1)
			if cyclic {
				if err == nil {
					o.violation("C08", "a cyclic value was encoded without an error", map[string]string{"case": desc, "variant": va.name, "output_bytes": strconv.Itoa(len(got))})
				} else if strings.HasPrefix(err.Error(), "PANIC") {
					o.violation("C08", "a cyclic value made the encoder panic", map[string]string{"case": desc, "variant": va.name, "panic": clipN(err.Error(), 300)})
				}
				continue
			}
			want, werr := c01Safe(func() ([]byte, error) { return va.std(v) })
			if werr != nil {
				continue // encoding/json gives up (its own depth limit): nothing to compare with
			}
			if err != nil && (exact || strings.HasPrefix(err.Error(), "PANIC")) {
				o.violation("C08", "an acyclic value failed to encode", map[string]string{"case": desc, "variant": va.name, "error": clipN(err.Error(), 300)})
				continue
			}
			if exact && !tgSameJSON(got, want) {
				o.violation("C08", "an acyclic value was encoded wrongly", map[string]string{"case": desc, "variant": va.name,
					"first_difference": strconv.Itoa(firstDiff(got, want)), "got_at_difference": around(got, firstDiff(got, want)), "want_at_difference": around(want, firstDiff(got, want))})
			}
		}
	}
	depths := []int{0, 1, 2, 3, 4, 5, 8, 13, 50, 200, 998, 999, 1000, 1001, 1002, 1003, 2000}
	if o.tier == "thorough" {
		for d := 6; d < 60; d++ {
			depths = append(depths, d)
		}
	}
	for _, d := range depths {
		th := c08ThinChain(d)
		run(fmt.Sprintf("thin chain depth %d", d), th, false)
		run(fmt.Sprintf("thin chain depth %d in interface", d), C08Wrap{1, th, "after"}, false)
		run(fmt.Sprintf("link chain depth %d", d), c08LinkChain(d), false)
		run(fmt.Sprintf("link chain depth %d twice in a slice", d), []*C08Link{c08LinkChain(d), c08LinkChain(d / 2)}, false)
		run(fmt.Sprintf("tree chain depth %d", d), c08TreeChain(d), false)
		run(fmt.Sprintf("shared leaf below %d links", d), c08SharedChain(d), false)
		if d <= 50 {
			for k, v := range c08PIShapes(d) {
				run(fmt.Sprintf("*interface{} members, shape %d, depth %d", k+1, d), v, false)
			}
		}
		runtime.GC()
		if d > 200 {
			continue // the fat shapes below produce text quadratic in the depth times their width
		}
		for rep := 0; rep < 3; rep++ {
			n := c08Chain(d, r)
			run(fmt.Sprintf("chain depth %d rep %d", d, rep), n, false)
			if n != nil {
				run(fmt.Sprintf("chain depth %d rep %d by value", d, rep), *n, false)
				run(fmt.Sprintf("chain depth %d rep %d in wrapper", d, rep), C08Wrap{1, n, "after"}, false)
				run(fmt.Sprintf("chain depth %d rep %d in []interface{}", d, rep), []interface{}{n, "x", n}, false)
			}
		}
		m := c08Mut(d)
		run(fmt.Sprintf("mutual depth %d", d), m, false)
		run(fmt.Sprintf("mutual depth %d in map", d), map[string]interface{}{"m": m, "n": []*C08Mut1{m}}, false)
		// plain deep nesting without named types
		var nest interface{} = 1
		for i := 0; i < d; i++ {
			if i%2 == 0 {
				nest = []interface{}{nest}
			} else {
				nest = map[string]interface{}{"k": nest}
			}
		}
		run(fmt.Sprintf("interface nesting depth %d", d), nest, false)
	}
	// cycles
	{
		a := &C08Node{A: 1}
		a.Next = a
		run("cycle: node.Next = node", a, true)
		b := &C08Node{A: 2}
		c := &C08Node{A: 3, Next: b}
		b.D = map[string]*C08Node{"c": c}
		run("cycle through a map", b, true)
		d := &C08Node{A: 4}
		d.I = d
		run("cycle through an interface", d, true)
		e := &C08Node{A: 5}
		e.F[0] = &C08Node{A: 6, Next: e}
		run("cycle through an array of pointers", e, true)
		s := []interface{}{nil}
		s[0] = s
		run("slice that contains itself", s, true)
		mm := map[string]interface{}{}
		mm["self"] = mm
		run("map that contains itself", mm, true)
		m1 := &C08Mut1{X: "x"}
		m1.Two = &C08Mut2{Back: m1}
		run("mutual cycle", m1, true)
		long := c08Chain(300, r)
		tail := long
		for tail.Next != nil || tail.I != nil && false {
			if tail.Next == nil {
				break
			}
			tail = tail.Next
		}
		tail.Next = long
		run("long cycle", long, true)
	}
	// stack-resident values with a callback that moves the stack
	for i := 0; i < 24; i++ {
		caseNo++
		if caseNo <= skip {
			continue
		}
		os.WriteFile(o.dir+"/progress", []byte(strconv.Itoa(caseNo)), 0o644)
		o.current(map[string]string{"property": "C08", "case": "stack-resident value, callback grows the stack", "iteration": strconv.Itoa(i)})
		// in a fresh goroutine whose stack has first been grown to 64 KiB or more
		type res struct{ got, want string }
		ch := make(chan res)
		go func(i int) {
			c08Grow(150)
			var g, w string
			switch i % 4 {
			case 3:
				g, w = c08StackCaseIndent(int64(1000 + i))
			case 2:
				g, w = c08StackCaseContext(int64(1000 + i))
			default:
				g, w = c08StackCase(int64(1000+i), 0)
			}
			ch <- res{g, w}
		}(i)
		rr := <-ch
		got, want := rr.got, rr.want
		o.count("stack_resident_cases", 1)
		if got != want {
			o.violation("C08", "a value on the goroutine stack was read from stale memory after a callback moved the stack", map[string]string{"got": clipN(got, 300), "want": want, "iteration": strconv.Itoa(i)})
		}
	}
	// generated types that contain recursive named types, with GC callbacks
	ntypes := 300
	if o.tier == "thorough" {
		ntypes = 4000
	}
	exact = false
	for i := 0; i < ntypes; i++ {
		t := tgType(r, 3, tgOpts{named: true})
		if t.Kind() == reflect.Interface || tgKnownBadAnywhere(reflect.PtrTo(t), 0) != "" {
			continue
		}
		v := reflect.New(t)
		tgValue(r, v.Elem(), 0, 20, false)
		if c01CrashClass(t, v, 0) != "" {
			continue
		}
		run("generated "+clipN(t.String(), 200), C08Wrap{i, v.Interface(), "z"}, false)
	}
}

// witnesses of recorded findings that kill the process: run alone in a child
type C08RecMap map[string]C08RecMap
type C08RecSlice []C08RecSlice

func c08Probes() map[string]interface{} {
	return map[string]interface{}{
		"RecursiveNonStructType":       C08RecMap{"a": nil, "b": C08RecMap{"c": C08RecMap{}}},
		"RecursiveNonStructType/slice": C08RecSlice{nil, C08RecSlice{C08RecSlice{}}},
	}
}

// child: exit 0 if the witness encodes like encoding/json, 1 if not (a crash is any other status)
func runC08Probe(o *Out) {
	v := c08Probes()[os.Getenv("C08_PROBE")]
	got, err := gojson.Marshal(v)
	want, _ := stdjson.Marshal(v)
	if err != nil || !bytes.Equal(got, want) {
		os.Exit(1)
	}
}

func runC08(o *Out) {
	c08CycleCases(o)
	if self, err := os.Executable(); err == nil {
		for name := range c08Probes() {
			cctx, cancel := context.WithTimeout(context.Background(), 120*time.Second)
			cmd := exec.CommandContext(cctx, self, "C08probe", "quick", "0", o.dir+"/probe")
			cmd.Env = append(os.Environ(), "C08_PROBE="+name, "VERIF_AS_LIMIT_MB=8000")
			err := cmd.Run()
			cancel()
			if err != nil {
				o.known(strings.SplitN(name, "/", 2)[0], "witness "+name+" in c08Probes: "+err.Error())
			} else {
				o.count("probe_witness_encodes_correctly:"+name, 1)
			}
		}
	}
	bins := []struct{ name, bin string }{{"normal", ""}}
	if b := os.Getenv("VERIF_CHECKPTR_BIN"); b != "" {
		bins = append(bins, struct{ name, bin string }{"checkptr", b})
	} else {
		o.Notes = append(o.Notes, "VERIF_CHECKPTR_BIN not set: checkptr build not exercised")
	}
	self, _ := os.Executable()
	for _, bn := range bins {
		bin := bn.bin
		if bin == "" {
			bin = self
		}
		startAll := time.Now()
		skip := 0
		for attempt := 0; attempt < 15; attempt++ {
			dir := o.dir + "/" + bn.name + strconv.Itoa(attempt)
			limit := 240 * time.Second
			if o.tier == "thorough" {
				limit = 2400 * time.Second
			}
			cctx, cancel := context.WithTimeout(context.Background(), limit)
			cmd := exec.CommandContext(cctx, bin, "C08child", o.tier, strconv.FormatInt(o.seed, 10), dir)
			cmd.Env = append(os.Environ(), "C08_SKIP="+strconv.Itoa(skip), "VERIF_AS_LIMIT_MB=8000")
			var eb bytes.Buffer
			cmd.Stdout, cmd.Stderr = &eb, &eb
			err := cmd.Run()
			cancel()
			if err == nil {
				mergeChild(o, dir)
				o.count("child_runs_completed:"+bn.name, 1)
				break
			}
			det := map[string]string{"build": bn.name, "detail": err.Error(), "output": clipN(eb.String(), 900)}
			if b, e := os.ReadFile(dir + "/current.json"); e == nil {
				det["case"] = string(b)
			}
			o.violation("C08", "the encoder crashed or hung the process", det)
			if time.Since(startAll) > 2*limit {
				break
			}
			b, e := os.ReadFile(dir + "/progress")
			if e != nil {
				break
			}
			n, _ := strconv.Atoi(string(b))
			skip = n
		}
	}
}
