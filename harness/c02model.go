package main

// C02, model correspondence (op c02.dec): the typed decoding semantics of
// coq/Model/Decode.v beside encoding/json (oracle) and go-json
// (implementation) on generated (type, document, initial value) triples of the
// modelled fragment: bool, integers of every width, strings, interface{} (with
// UseNumber), pointers, slices, arrays, maps with string keys, structs.

import (
	"bytes"
	stdjson "encoding/json"
	"fmt"
	"math/rand"
	"reflect"
	"sort"
	"strconv"
	"strings"
	"unicode/utf8"

	gojson "github.com/goccy/go-json"
)

var c02mBasic = []reflect.Type{
	reflect.TypeOf(false), reflect.TypeOf(int(0)), reflect.TypeOf(int8(0)), reflect.TypeOf(int16(0)), reflect.TypeOf(int32(0)), reflect.TypeOf(int64(0)),
	reflect.TypeOf(uint(0)), reflect.TypeOf(uint8(0)), reflect.TypeOf(uint16(0)), reflect.TypeOf(uint32(0)), reflect.TypeOf(uint64(0)), reflect.TypeOf(""),
}

func c02mType(r *rand.Rand, depth int) reflect.Type {
	k := r.Intn(18)
	if depth <= 0 && k >= 8 {
		k = r.Intn(8)
	}
	switch {
	case k < 7:
		if k == 0 && r.Intn(3) == 0 {
			return reflect.TypeOf([]byte(nil))
		}
		return c02mBasic[r.Intn(len(c02mBasic))]
	case k == 7:
		return tgIface
	case k < 10:
		return reflect.PtrTo(c02mType(r, depth-1))
	case k < 12:
		t := c02mType(r, depth-1)
		if t.Kind() == reflect.Uint8 {
			t = reflect.TypeOf(int8(0)) // []byte is base64: outside the fragment
		}
		return reflect.SliceOf(t)
	case k == 12:
		return reflect.ArrayOf(r.Intn(4), c02mType(r, depth-1))
	case k < 15:
		if r.Intn(3) == 0 {
			// integer keys of every width, signed and unsigned
			return reflect.MapOf(c02mBasic[1+r.Intn(10)], c02mType(r, depth-1))
		}
		return reflect.MapOf(reflect.TypeOf(""), c02mType(r, depth-1))
	default:
		return c02mStruct(r, depth-1)
	}
}

var c02mNoOmitempty bool // the typed encoding model has no omitempty: its cases use structs without it

func c02mStruct(r *rand.Rand, depth int) reflect.Type {
	n := 1 + r.Intn(5)
	var fs []reflect.StructField
	for i := 0; i < n; i++ {
		f := reflect.StructField{Name: fmt.Sprintf("F%d", i), Type: c02mType(r, depth)}
		switch r.Intn(5) {
		case 0:
			f.Tag = reflect.StructTag(fmt.Sprintf(`json:"n%d"`, i))
		case 1:
			opt := ",omitempty"
			if c02mNoOmitempty {
				opt = ""
			}
			f.Tag = reflect.StructTag(`json:"` + []string{"a&b", "<x>", "é", "with space", "UPPER", "id", "name", "kK"}[i%8] + opt + `"`)
		}
		fs = append(fs, f)
	}
	return reflect.StructOf(fs)
}

func c02mKey(f reflect.StructField) string {
	if tag := f.Tag.Get("json"); tag != "" {
		if p := strings.Split(tag, ",")[0]; p != "" {
			return p
		}
	}
	return f.Name
}

func c02mTypeWire(w *strings.Builder, t reflect.Type) {
	switch t.Kind() {
	case reflect.Bool:
		w.WriteByte('b')
	case reflect.Int, reflect.Int8, reflect.Int16, reflect.Int32, reflect.Int64:
		fmt.Fprintf(w, "i%d:", t.Bits())
	case reflect.Uint, reflect.Uint8, reflect.Uint16, reflect.Uint32, reflect.Uint64:
		fmt.Fprintf(w, "u%d:", t.Bits())
	case reflect.String:
		w.WriteByte('s')
	case reflect.Interface:
		w.WriteByte('f')
	case reflect.Ptr:
		w.WriteByte('p')
		c02mTypeWire(w, t.Elem())
	case reflect.Slice:
		if t.Elem().Kind() == reflect.Uint8 {
			w.WriteByte('y') // []byte
			return
		}
		w.WriteByte('l')
		c02mTypeWire(w, t.Elem())
	case reflect.Array:
		fmt.Fprintf(w, "a%d:", t.Len())
		c02mTypeWire(w, t.Elem())
	case reflect.Map:
		switch t.Key().Kind() {
		case reflect.Int, reflect.Int8, reflect.Int16, reflect.Int32, reflect.Int64:
			fmt.Fprintf(w, "k%d:", t.Key().Bits())
		case reflect.Uint, reflect.Uint8, reflect.Uint16, reflect.Uint32, reflect.Uint64:
			fmt.Fprintf(w, "K%d:", t.Key().Bits())
		default:
			w.WriteByte('m')
		}
		c02mTypeWire(w, t.Elem())
	case reflect.Struct:
		fmt.Fprintf(w, "r%d:", t.NumField())
		for i := 0; i < t.NumField(); i++ {
			k := c02mKey(t.Field(i))
			fmt.Fprintf(w, "%d:%s", len(k), k)
			c02mTypeWire(w, t.Field(i).Type)
		}
	}
}

// a map key as the document spells it (integer keys: their decimal text)
func c02mKeyText(k reflect.Value) string {
	switch k.Kind() {
	case reflect.Int, reflect.Int8, reflect.Int16, reflect.Int32, reflect.Int64:
		return strconv.FormatInt(k.Int(), 10)
	case reflect.Uint, reflect.Uint8, reflect.Uint16, reflect.Uint32, reflect.Uint64:
		return strconv.FormatUint(k.Uint(), 10)
	}
	return k.String()
}

func c02mGenWire(w *strings.Builder, x interface{}) bool {
	switch v := x.(type) {
	case nil:
		w.WriteByte('n')
	case bool:
		if v {
			w.WriteByte('t')
		} else {
			w.WriteByte('f')
		}
	case stdjson.Number:
		fmt.Fprintf(w, "#%d:%s", len(v), string(v))
	case string:
		fmt.Fprintf(w, "$%d:%s", len(v), v)
	case []interface{}:
		fmt.Fprintf(w, "[%d:", len(v))
		for _, e := range v {
			if !c02mGenWire(w, e) {
				return false
			}
		}
	case map[string]interface{}:
		keys := make([]string, 0, len(v))
		for k := range v {
			keys = append(keys, k)
		}
		sort.Strings(keys)
		fmt.Fprintf(w, "{%d:", len(v))
		for _, k := range keys {
			fmt.Fprintf(w, "%d:%s", len(k), k)
			if !c02mGenWire(w, v[k]) {
				return false
			}
		}
	default:
		return false
	}
	return true
}

func c02mValWire(w *strings.Builder, v reflect.Value) bool {
	switch v.Kind() {
	case reflect.Bool:
		if v.Bool() {
			w.WriteByte('T')
		} else {
			w.WriteByte('F')
		}
	case reflect.Int, reflect.Int8, reflect.Int16, reflect.Int32, reflect.Int64:
		s := strconv.FormatInt(v.Int(), 10)
		fmt.Fprintf(w, "I%d:%s", len(s), s)
	case reflect.Uint, reflect.Uint8, reflect.Uint16, reflect.Uint32, reflect.Uint64:
		s := strconv.FormatUint(v.Uint(), 10)
		fmt.Fprintf(w, "I%d:%s", len(s), s)
	case reflect.String:
		fmt.Fprintf(w, "S%d:%s", v.Len(), v.String())
	case reflect.Interface:
		if v.IsNil() {
			w.WriteByte('Z')
			return true
		}
		w.WriteByte('G')
		return c02mGenWire(w, v.Interface())
	case reflect.Ptr:
		if v.IsNil() {
			w.WriteByte('Z')
			return true
		}
		w.WriteByte('P')
		return c02mValWire(w, v.Elem())
	case reflect.Slice:
		if v.IsNil() {
			w.WriteByte('Z')
			return true
		}
		fmt.Fprintf(w, "L%d:", v.Len())
		for i := 0; i < v.Len(); i++ {
			if !c02mValWire(w, v.Index(i)) {
				return false
			}
		}
	case reflect.Array:
		fmt.Fprintf(w, "A%d:", v.Len())
		for i := 0; i < v.Len(); i++ {
			if !c02mValWire(w, v.Index(i)) {
				return false
			}
		}
	case reflect.Map:
		if v.IsNil() {
			w.WriteByte('Z')
			return true
		}
		keys := v.MapKeys()
		sort.Slice(keys, func(i, j int) bool { return c02mKeyText(keys[i]) < c02mKeyText(keys[j]) })
		fmt.Fprintf(w, "M%d:", len(keys))
		for _, k := range keys {
			kt := c02mKeyText(k)
			fmt.Fprintf(w, "%d:%s", len(kt), kt)
			if !c02mValWire(w, v.MapIndex(k)) {
				return false
			}
		}
	case reflect.Struct:
		fmt.Fprintf(w, "R%d:", v.NumField())
		for i := 0; i < v.NumField(); i++ {
			if !c02mValWire(w, v.Field(i)) {
				return false
			}
		}
	default:
		return false
	}
	return true
}

var c02mIfaceValues = []interface{}{nil, "s", stdjson.Number("1.5"), true, []interface{}{stdjson.Number("1"), nil}, map[string]interface{}{"k": "v"}}

// interfaces of the initial value hold JSON-natural values only (a pointer inside an interface is the open finding
// PopulatedInterfacePointerChain / the reuse rule of encoding/json the model leaves out)
func c02mSanitize(r *rand.Rand, v reflect.Value, depth int) {
	switch v.Kind() {
	case reflect.Interface:
		x := c02mIfaceValues[r.Intn(len(c02mIfaceValues))]
		if x == nil {
			v.Set(reflect.Zero(v.Type()))
		} else {
			v.Set(reflect.ValueOf(x))
		}
	case reflect.Ptr:
		if !v.IsNil() {
			c02mSanitize(r, v.Elem(), depth+1)
		}
	case reflect.Slice, reflect.Array:
		for i := 0; i < v.Len(); i++ {
			c02mSanitize(r, v.Index(i), depth+1)
		}
	case reflect.Map:
		keys := v.MapKeys() // in a fixed order: the values drawn must not depend on the iteration order of the map
		sort.Slice(keys, func(i, j int) bool { return c02mKeyText(keys[i]) < c02mKeyText(keys[j]) })
		for _, k := range keys {
			x := reflect.New(v.Type().Elem()).Elem()
			x.Set(v.MapIndex(k))
			c02mSanitize(r, x, depth+1)
			v.SetMapIndex(k, x)
		}
	case reflect.Struct:
		for i := 0; i < v.NumField(); i++ {
			c02mSanitize(r, v.Field(i), depth+1)
		}
	case reflect.String:
		if !utf8.ValidString(v.String()) {
			v.SetString(strings.ToValidUTF8(v.String(), "?"))
		}
	}
}

// documents for the fragment: exact and ASCII-case-variant keys, unknown and repeated keys, null and wrong kinds in
// every position, integers at the boundaries, strings with every escape class
func c02mDoc(r *rand.Rand, t reflect.Type, depth int) string {
	if depth > 6 {
		return "null"
	}
	switch r.Intn(30) {
	case 0, 1:
		return "null"
	case 2:
		return c02Wrong(r)
	}
	switch t.Kind() {
	case reflect.Bool:
		return []string{"true", "false"}[r.Intn(2)]
	case reflect.Int, reflect.Int8, reflect.Int16, reflect.Int32, reflect.Int64:
		// mostly inside the range of the type, at its edges; sometimes any boundary text
		bits := uint(t.Bits())
		switch r.Intn(8) {
		case 0:
			return c02Ints[r.Intn(len(c02Ints))]
		case 1:
			return strconv.FormatInt(-1<<(bits-1), 10)
		case 2:
			return strconv.FormatInt(1<<(bits-1)-1, 10)
		case 3:
			return []string{"0", "-0", "-1", "1"}[r.Intn(4)]
		}
		return strconv.FormatInt(r.Int63()>>(64-bits)*int64(1-2*r.Intn(2)), 10)
	case reflect.Uint, reflect.Uint8, reflect.Uint16, reflect.Uint32, reflect.Uint64:
		bits := uint(t.Bits())
		switch r.Intn(8) {
		case 0:
			return c02Ints[r.Intn(len(c02Ints))]
		case 1:
			return strconv.FormatUint(^uint64(0)>>(64-bits), 10)
		case 2:
			return "0"
		}
		return strconv.FormatUint(r.Uint64()>>(64-bits), 10)
	case reflect.String:
		if r.Intn(3) == 0 {
			return c02RandStringLit(r) // (audit) escapes of every class at any position: pairs, lone surrogates, both cases of the hex digits, long runs
		}
		return c02Strings[r.Intn(len(c02Strings))]
	case reflect.Interface:
		return genValue(r, 2)
	case reflect.Ptr:
		return c02mDoc(r, t.Elem(), depth+1)
	case reflect.Slice, reflect.Array:
		if t.Kind() == reflect.Slice && t.Elem().Kind() == reflect.Uint8 && r.Intn(4) != 0 {
			// []byte: mostly a base64 string (sometimes with escapes, line ends, or broken), else an array as for any slice
			txt := c04B64Texts(r, 1)[0]
			if r.Intn(3) == 0 {
				var b strings.Builder
				b.WriteByte('"')
				for _, c := range txt {
					if c < 0x20 || c == '"' || c == '\\' || c >= 0x7f || r.Intn(6) == 0 {
						fmt.Fprintf(&b, "\\u%04x", c)
					} else {
						b.WriteByte(c)
					}
				}
				b.WriteByte('"')
				return b.String()
			}
			lit, _ := stdjson.Marshal(string(txt))
			return string(lit)
		}
		n := r.Intn(5)
		var parts []string
		for i := 0; i < n; i++ {
			parts = append(parts, c02WS(r)+c02mDoc(r, t.Elem(), depth+1)+c02WS(r))
		}
		return "[" + c02WS(r) + strings.Join(parts, ",") + "]"
	case reflect.Map:
		n := r.Intn(4)
		var parts []string
		for i := 0; i < n; i++ {
			k := c02Strings[r.Intn(len(c02Strings))]
			if r.Intn(4) == 0 {
				k = c02RandStringLit(r)
			}
			if kk := t.Key().Kind(); kk != reflect.String {
				// integer keys: mostly in range and as Marshal writes them; sometimes another spelling, the edge of the range, or no integer
				bits := uint(t.Key().Bits())
				signed := kk >= reflect.Int && kk <= reflect.Int64
				switch r.Intn(10) {
				case 0:
					k = []string{`"+1"`, `"01"`, `"-0"`, `"00"`, `"+0"`, `"-01"`, `"1_0"`, `"0x10"`, `" 1"`, `"1 "`, `""`, `"-"`, `"1.0"`, `"1e1"`, `"abc"`, `"\u0031"`, `"9223372036854775808"`, `"18446744073709551616"`, `"-9223372036854775809"`}[r.Intn(19)]
				case 1:
					if signed {
						k = `"` + strconv.FormatInt([]int64{-1 << (bits - 1), 1<<(bits-1) - 1}[r.Intn(2)], 10) + `"`
					} else {
						k = `"` + strconv.FormatUint(^uint64(0)>>(64-bits), 10) + `"`
					}
				case 2:
					if signed && bits < 64 {
						k = `"` + strconv.FormatInt([]int64{-1<<(bits-1) - 1, 1 << (bits - 1)}[r.Intn(2)], 10) + `"`
					} else if !signed && bits < 64 {
						k = `"` + strconv.FormatUint(1<<bits, 10) + `"`
					} else {
						k = `"-1"`
					}
				default:
					if signed {
						k = `"` + strconv.FormatInt(int64(r.Intn(7))-3, 10) + `"`
					} else {
						k = `"` + strconv.Itoa(r.Intn(5)) + `"`
					}
				}
			}
			if i > 0 && r.Intn(4) == 0 {
				k = strings.TrimSpace(parts[0][:strings.Index(parts[0], ":")])
			}
			parts = append(parts, k+c02WS(r)+":"+c02WS(r)+c02mDoc(r, t.Elem(), depth+1))
		}
		return "{" + c02WS(r) + strings.Join(parts, c02WS(r)+","+c02WS(r)) + c02WS(r) + "}"
	case reflect.Struct:
		var parts []string
		for i := 0; i < t.NumField(); i++ {
			if r.Intn(4) == 0 {
				continue
			}
			name := c02mKey(t.Field(i))
			key := strconvQuote(name)
			switch r.Intn(8) {
			case 0:
				key = strconvQuote(c02ASCIICase(name, true))
			case 1:
				key = strconvQuote(c02ASCIICase(name, false))
			case 2:
				if name[0] < 0x80 {
					b, _ := stdjson.Marshal(name[1:])
					key = fmt.Sprintf(`"\u%04x%s`, name[0], string(b[1:]))
				}
			case 3:
				key = c02EscapeSome(r, name, r.Intn(3) == 0) // (audit) escapes at any position of the key
			}
			parts = append(parts, key+c02WS(r)+":"+c02WS(r)+c02mDoc(r, t.Field(i).Type, depth+1))
			if r.Intn(5) == 0 {
				parts = append(parts, key+":"+c02mDoc(r, t.Field(i).Type, depth+1)) // the same key again
			}
		}
		if r.Intn(3) == 0 {
			parts = append(parts, []string{`"unknown"`, `"F99"`, `""`, `"F0x"`}[r.Intn(4)]+":"+genValue(r, 2))
		}
		r.Shuffle(len(parts), func(i, j int) { parts[i], parts[j] = parts[j], parts[i] })
		return "{" + c02WS(r) + strings.Join(parts, c02WS(r)+","+c02WS(r)) + c02WS(r) + "}"
	}
	return "null"
}

func c02ModelCases(o *Out) {
	r := o.rng
	n := 2500
	if o.tier == "thorough" {
		n = 40000
	}
	for i := 0; i < n; i++ {
		var t reflect.Type
		if i%3 == 0 {
			t = c02mType(r, 3)
		} else {
			t = c02mStruct(r, 2)
		}
		doc := []byte(c02mDoc(r, t, 0))
		if !utf8.Valid(doc) || !stdjson.Valid(doc) {
			continue
		}
		seed := r.Int63()
		populated := i%2 == 1
		mk := func() reflect.Value {
			v := reflect.New(t)
			if populated {
				rr := rand.New(rand.NewSource(seed))
				tgValue(rr, v.Elem(), 0, 30, false)
				c02mSanitize(rr, v.Elem(), 0)
			}
			return v
		}
		var tw, iw strings.Builder
		c02mTypeWire(&tw, t)
		if !c02mValWire(&iw, mk().Elem()) {
			continue
		}
		res := func(f func([]byte, interface{}) error) (string, bool) {
			v := mk()
			if err := c04SafeErr(func() error { return f(doc, v.Interface()) }); err != nil {
				return "E", true
			}
			var w strings.Builder
			w.WriteByte('O')
			if !c02mValWire(&w, v.Elem()) {
				return "", false
			}
			return w.String(), true
		}
		o.current(map[string]string{"property": "C02", "type": clipN(t.String(), 600), "doc": string(doc), "entry": "Decoder(UseNumber)", "model_case": "1"})
		want, ok1 := res(func(b []byte, v interface{}) error {
			d := stdjson.NewDecoder(bytes.NewReader(b))
			d.UseNumber()
			return d.Decode(v)
		})
		got, ok2 := res(func(b []byte, v interface{}) error {
			d := gojson.NewDecoder(bytes.NewReader(b))
			d.UseNumber()
			return d.Decode(v)
		})
		if !ok1 || !ok2 {
			o.count("model_cases_value_outside_the_fragment", 1)
			continue
		}
		if got != want && c02RepeatedKeyAndSlice(t, doc) {
			// open finding SliceSpareCapacityZeroed: encoding/json lets stale elements of the spare capacity show through
			o.known("SliceSpareCapacityZeroed", clipN(string(doc), 160)+" into "+clipN(t.String(), 160))
			continue
		}
		o.emit("A", "c02.dec", [][]byte{[]byte(tw.String()), doc, []byte(iw.String())}, []byte(got), []byte(want), true)
		o.count("typed_decoding_model_cases", 1)
		if want == "E" {
			o.hist("model_case_verdict", "error")
		} else {
			o.hist("model_case_verdict", "ok")
		}
	}
}

// the type holds a slice somewhere and some object of the document has a key twice (also in another letter case
// or spelled with escapes): a slice may then be decoded twice in one call
func c02RepeatedKeyAndSlice(t reflect.Type, doc []byte) bool {
	hasSlice := false
	tgTypeTypes(t, 0, func(x reflect.Type) {
		if x.Kind() == reflect.Slice {
			hasSlice = true
		}
	})
	if !hasSlice {
		return false
	}
	var cb bytes.Buffer
	if stdjson.Compact(&cb, doc) != nil || cb.Len() == 0 {
		return false
	}
	tree, _ := c19Parse(cb.Bytes(), 0)
	return c02HasRepeatedKey(tree)
}

func c02HasRepeatedKey(n *c19Node) bool {
	if n == nil {
		return false
	}
	if n.kind == 'o' {
		seen := map[string]bool{}
		for _, k := range n.keys {
			lk := strings.ToLower(k)
			if seen[lk] {
				return true
			}
			seen[lk] = true
		}
	}
	for _, it := range n.items {
		if c02HasRepeatedKey(it) {
			return true
		}
	}
	return false
}
