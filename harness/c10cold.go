package main

// C10, the process's first use of the library from several goroutines (coq/Model/InitOnce.v): the type caches are set
// up on first use; here the first calls a process ever makes are made by many goroutines at once, released together
// and staggered by fractions of a microsecond, in fresh child processes.

import (
	stdjson "encoding/json"
	"fmt"
	"os"
	"os/exec"
	"strconv"
	"strings"
	"sync"
	"sync/atomic"
	"time"

	gojson "github.com/goccy/go-json"
)

func init() { props["C10cold"] = runC10Cold }

type c10ColdV struct {
	ID   int            `json:"id"`
	Name string         `json:"name"`
	Tags []string       `json:"tags"`
	M    map[string]int `json:"m"`
	P    *c10ColdV      `json:"p,omitempty"`
	I    interface{}    `json:"i"`
}

// child: nothing of the library has run in this process
func runC10Cold(o *Out) {
	n := 64
	step, _ := strconv.Atoi(os.Getenv("C10_COLD_STEP_NS"))
	decodeFirst := os.Getenv("C10_COLD_DECODE") == "1"
	vals := make([]c10ColdV, n)
	wants := make([][]byte, n)
	for g := range vals {
		vals[g] = c10ColdV{ID: g, Name: fmt.Sprintf("g%d", g), Tags: []string{"a", strconv.Itoa(g)}, M: map[string]int{"k": g}, P: &c10ColdV{ID: -g}, I: []interface{}{float64(g), "x"}}
		wants[g], _ = stdjson.Marshal(vals[g])
	}
	var wg sync.WaitGroup
	var ready int32
	start := make(chan struct{})
	problems := make([]string, n)
	for g := 0; g < n; g++ {
		wg.Add(1)
		go func(g int) {
			defer wg.Done()
			defer func() {
				if r := recover(); r != nil {
					problems[g] = fmt.Sprintf("panic: %v", r)
				}
			}()
			atomic.AddInt32(&ready, 1)
			<-start
			if step > 0 {
				t0 := time.Now()
				for time.Since(t0) < time.Duration(g*step)*time.Nanosecond {
				}
			}
			if decodeFirst {
				var back c10ColdV
				if err := gojson.Unmarshal(wants[g], &back); err != nil {
					problems[g] = "Unmarshal: " + err.Error()
					return
				}
				if b, _ := stdjson.Marshal(back); string(b) != string(wants[g]) {
					problems[g] = "Unmarshal stored " + clip(string(b)) + " want " + clip(string(wants[g]))
				}
				return
			}
			got, err := gojson.Marshal(vals[g])
			if err != nil || string(got) != string(wants[g]) {
				problems[g] = fmt.Sprintf("Marshal: err %v got %s want %s", err, clip(string(got)), clip(string(wants[g])))
			}
		}(g)
	}
	for atomic.LoadInt32(&ready) < int32(n) {
		time.Sleep(50 * time.Microsecond)
	}
	close(start)
	wg.Wait()
	for g, p := range problems {
		if p != "" {
			o.violation("C10", "the first calls of a process, made by several goroutines at once, went wrong", map[string]string{
				"goroutine": strconv.Itoa(g), "goroutines": strconv.Itoa(n), "stagger_ns": strconv.Itoa(step), "decode_first": strconv.FormatBool(decodeFirst), "problem": p})
			break
		}
	}
	o.count("cold_start_first_calls", int64(n))
}

// parent: fresh processes, several staggerings, encoder first and decoder first
func c10ColdStarts(o *Out) {
	self, _ := os.Executable()
	k := 48
	if o.tier == "thorough" {
		k = 600
	}
	steps := []int{0, 100, 250, 500, 1000, 2000, 4000, 8000}
	var wg sync.WaitGroup
	var mu sync.Mutex
	sem := make(chan struct{}, 8)
	for i := 0; i < k; i++ {
		wg.Add(1)
		sem <- struct{}{}
		go func(i int) {
			defer wg.Done()
			defer func() { <-sem }()
			dir := o.dir + "/cold" + strconv.Itoa(i)
			cmd := exec.Command(self, "C10cold", o.tier, strconv.Itoa(i), dir)
			dec := "0"
			if i%4 == 3 {
				dec = "1"
			}
			cmd.Env = append(os.Environ(), "C10_COLD_STEP_NS="+strconv.Itoa(steps[i%len(steps)]), "C10_COLD_DECODE="+dec, "GOMAXPROCS="+[]string{"16", "4", "2", "8"}[i%4])
			out, err := cmd.CombinedOutput()
			mu.Lock()
			defer mu.Unlock()
			if err != nil {
				o.violation("C10", "a process whose first calls are made by several goroutines at once died", map[string]string{
					"detail": err.Error(), "output": clip(strings.TrimSpace(string(out))), "stagger_ns": strconv.Itoa(steps[i%len(steps)]), "decode_first": dec})
			}
			mergeChild(o, dir)
			os.RemoveAll(dir)
			o.count("cold_start_processes", 1)
		}(i)
	}
	wg.Wait()
}
