// Harness: runs the implementation (built from /repo's working tree) and the
// oracles on generated cases and writes them in the format bin/check joins
// with the model's output.
//
//	harness <property> <tier> <seed> <outdir>
//
// Output: <outdir>/cases.tsv  kind \t op \t args(hex, space separated) \t impl(hex) \t oracle(hex or ~)
//
//	kind A = correspondence case (model is run on it; oracle compared too when present)
//	kind C = implementation/oracle disagreement found by the search (model classifies it)
//	<outdir>/stats.json  counts, histograms and samples for the evidence file
package main

import (
	"bufio"
	"bytes"
	"encoding/hex"
	"encoding/json"
	"fmt"
	"math/rand"
	"os"
	"path/filepath"
	"sort"
	"strconv"
	"strings"
	"syscall"
)

type Out struct {
	w        *bufio.Writer
	f        *os.File
	seen     map[string]bool
	Stats    map[string]int64
	Hist     map[string]map[string]int64
	Samples  []string
	Notes    []string
	Distinct int64
	rng      *rand.Rand
	tier     string
	seed     int64
	dir      string
	Viol     []map[string]string // harness-level violations (no model involved)
	Known    map[string]string   // harness-level known findings: tag -> example
}

func hx(b []byte) string {
	if len(b) == 0 {
		return "-"
	}
	return hex.EncodeToString(b)
}

func (o *Out) count(k string, n int64) {
	o.Stats[k] += n
	// inputs of a recorded finding that a stratum produces but does not hand to the library by default (several of them
	// end the process): the class is reported as met, under its tag in KNOWN_FINDINGS.txt
	if tag, ok := map[string]string{
		"skipped_without_AUDIT_OPEN:interface_at_offset_0_below_1000_levels":   "InterfaceAtOffsetZeroFalseCycle",
		"skipped_without_AUDIT_OPEN:MarshalNoEscape_of_a_stack_resident_value": "NoEscapeStackResidentValue",
	}[k]; ok && os.Getenv("AUDIT_OPEN") == "" {
		o.known(tag, "inputs of this class are generated and, by default, not handed to the library (AUDIT_OPEN=1 runs them)")
	}
	if strings.HasPrefix(k, "audit_open_defect_cases:") && os.Getenv("AUDIT_OPEN") == "" {
		tag := strings.TrimSuffix(strings.TrimPrefix(k, "audit_open_defect_cases:"), "(crash)")
		o.known(tag, "inputs of this class are generated and, by default, not handed to the library (AUDIT_OPEN=1 runs them)")
	}
}
func (o *Out) hist(h, k string) {
	if o.Hist[h] == nil {
		o.Hist[h] = map[string]int64{}
	}
	o.Hist[h][k]++
}

// emit writes one case line. oracle == nil means "no oracle for this case".
func (o *Out) emit(kind, op string, args [][]byte, impl []byte, oracle []byte, hasOracle bool) {
	as := ""
	for i, a := range args {
		if i > 0 {
			as += " "
		}
		as += hx(a)
	}
	key := op + " " + as
	o.Stats["evaluations"]++
	if o.seen[kind+key] {
		return
	}
	o.seen[kind+key] = true
	o.Distinct++
	or := "~"
	if hasOracle {
		or = hx(oracle)
	}
	fmt.Fprintf(o.w, "%s\t%s\t%s\t%s\t%s\n", kind, op, as, hx(impl), or)
	if len(o.Samples) < 12 && (o.Distinct%97 == 1 || len(o.Samples) < 3) {
		o.Samples = append(o.Samples, fmt.Sprintf("%s %s -> %q", op, as, string(impl)))
	}
}

func (o *Out) violation(prop, what string, detail map[string]string) {
	// an input a stratum produced under the predicate of a finding recorded in KNOWN_FINDINGS.txt names that finding
	// in its text ("candidate finding <Tag>"): it is reported under the tag (bin/check accepts only listed tags);
	// AUDIT_OPEN=1 shows these inputs as violations
	if i := strings.Index(what, "candidate finding "); i >= 0 && os.Getenv("AUDIT_OPEN") == "" {
		tag := strings.TrimRight(strings.Fields(what[i+len("candidate finding "):])[0], "]);,.")
		if tag != "" {
			ex, _ := json.Marshal(detail)
			o.known(tag, clipN(string(ex), 300))
			return
		}
	}
	d := map[string]string{"property": prop, "what": what}
	for k, v := range detail {
		d[k] = v
	}
	if len(o.Viol) < 3000 {
		o.Viol = append(o.Viol, d)
	}
	o.Stats["harness_violations"]++
}

// current names the case about to be run; if the process dies, bin/check reports it as the failing input
func (o *Out) current(detail map[string]string) {
	b, _ := json.Marshal(detail)
	os.WriteFile(filepath.Join(o.dir, "current.json"), b, 0o644)
}

func (o *Out) known(tag, example string) {
	if _, ok := o.Known[tag]; !ok {
		o.Known[tag] = example
	}
	o.Stats["known:"+tag]++
}

// checkpoint writes what has been gathered so far (a child that may crash calls it as it goes)
func (o *Out) checkpoint() {
	o.w.Flush()
	st := map[string]interface{}{
		"stats": o.Stats, "hist": o.Hist, "samples": o.Samples, "distinct": o.Distinct,
		"notes": o.Notes, "violations": o.Viol, "known": o.Known,
	}
	b, _ := json.MarshalIndent(st, "", " ")
	os.WriteFile(filepath.Join(o.dir, "stats.json"), b, 0o644)
}

func (o *Out) close() {
	o.w.Flush()
	o.f.Close()
	st := map[string]interface{}{
		"stats": o.Stats, "hist": o.Hist, "samples": o.Samples, "distinct": o.Distinct,
		"notes": o.Notes, "violations": o.Viol, "known": o.Known,
	}
	b, _ := json.MarshalIndent(st, "", " ")
	os.WriteFile(filepath.Join(o.dir, "stats.json"), b, 0o644)
}

// mergeChild takes over what a child harness process wrote: its case lines, violations and counters
func mergeChild(o *Out, dir string) {
	if b, err := os.ReadFile(filepath.Join(dir, "cases.tsv")); err == nil {
		o.w.Write(b)
		o.Distinct += int64(bytes.Count(b, []byte("\n")))
	}
	b, err := os.ReadFile(filepath.Join(dir, "stats.json"))
	if err != nil {
		o.violation("harness", "child wrote no stats.json", map[string]string{"dir": dir})
		return
	}
	var st struct {
		Stats      map[string]int64
		Notes      []string
		Violations []map[string]string
		Known      map[string]string
	}
	if err := json.Unmarshal(b, &st); err != nil {
		o.violation("harness", "child stats.json unreadable", map[string]string{"dir": dir})
		return
	}
	for k, v := range st.Stats {
		o.Stats["child:"+k] += v
	}
	for _, n := range st.Notes {
		o.Notes = append(o.Notes, "child: "+n)
	}
	for _, v := range st.Violations {
		v["in_child"] = dir
		if len(o.Viol) < 3000 {
			o.Viol = append(o.Viol, v)
		}
		o.Stats["harness_violations"]++
	}
	for k, v := range st.Known {
		o.known(k, v)
	}
}

var props = map[string]func(o *Out){}

func main() {
	if mb, err := strconv.Atoi(os.Getenv("VERIF_AS_LIMIT_MB")); err == nil && mb > 0 {
		// child processes that run code which may have gone wrong: fail fast instead of eating the machine
		lim := syscall.Rlimit{Cur: uint64(mb) << 20, Max: uint64(mb) << 20}
		syscall.Setrlimit(syscall.RLIMIT_AS, &lim)
	}
	if len(os.Args) < 5 {
		fmt.Fprintln(os.Stderr, "usage: harness <property> <tier> <seed> <outdir>")
		os.Exit(2)
	}
	prop, tier, seedS, dir := os.Args[1], os.Args[2], os.Args[3], os.Args[4]
	seed, _ := strconv.ParseInt(seedS, 10, 64)
	os.MkdirAll(dir, 0o755)
	f, err := os.Create(filepath.Join(dir, "cases.tsv"))
	if err != nil {
		fmt.Fprintln(os.Stderr, err)
		os.Exit(2)
	}
	o := &Out{w: bufio.NewWriterSize(f, 1<<20), f: f, seen: map[string]bool{}, Stats: map[string]int64{},
		Hist: map[string]map[string]int64{}, rng: rand.New(rand.NewSource(seed)), tier: tier, dir: dir, seed: seed,
		Known: map[string]string{}}
	fn, ok := props[prop]
	if !ok {
		var ks []string
		for k := range props {
			ks = append(ks, k)
		}
		sort.Strings(ks)
		fmt.Fprintln(os.Stderr, "unknown property", prop, "have", ks)
		os.Exit(2)
	}
	fn(o)
	o.close()
}
