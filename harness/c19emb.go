package main

// C19, embedded structs: the members a struct takes from the structs it embeds are members of its own object in the
// document; a query selects them by their names like any other member.  A fixed family of types (value and pointer
// embedding, two levels, a hidden name), random queries over the member names of the document, the document of
// encoding/json restricted by the query as oracle (every object on the way is made by a struct).

import (
	"bytes"
	"context"
	stdjson "encoding/json"
	"math/rand"
	"reflect"

	gojson "github.com/goccy/go-json"
)

type C19EmbDeep struct {
	D1 int
	D2 C19Leaf
}
type C19EmbA struct {
	X  int
	Y  string
	In C19Leaf
	C19EmbDeep
}
type C19EmbB struct {
	P int `json:"p"`
	Q []C19Leaf
	Z int // hidden by the Z of the embedding struct
}
type C19WithEmb struct {
	C19EmbA
	*C19EmbB
	Z int
	L C19Leaf `json:"l"`
}
type C19HoldsEmb struct {
	ID   int
	One  C19WithEmb
	Many []*C19WithEmb
}

// the document restricted by a query: members by name, arrays element by element
func c19ProjectDoc(n *c19Node, qs []*c19Q) *c19Node {
	switch n.kind {
	case 'a':
		out := &c19Node{kind: 'a'}
		for _, it := range n.items {
			out.items = append(out.items, c19ProjectDoc(it, qs))
		}
		return out
	case 'o':
		out := &c19Node{kind: 'o'}
		for i, k := range n.keys {
			for _, q := range qs {
				if q.name != k {
					continue
				}
				it := n.items[i]
				if q.sub != nil {
					it = c19ProjectDoc(it, q.sub)
				}
				out.keys, out.rkeys, out.items = append(out.keys, k), append(out.rkeys, n.rkeys[i]), append(out.items, it)
				break
			}
		}
		return out
	}
	return n
}

func c19EmbQuery(r *rand.Rand, names []string, sub map[string][]string, depth int) []*c19Q {
	var qs []*c19Q
	for _, n := range names {
		if r.Intn(2) == 0 {
			continue
		}
		q := &c19Q{name: n}
		if s, ok := sub[n]; ok && depth > 0 && r.Intn(2) == 0 {
			q.sub = c19EmbQuery(r, s, sub, depth-1) // nil (no name drawn): the whole member
		}
		qs = append(qs, q)
	}
	if r.Intn(6) == 0 {
		qs = append(qs, &c19Q{name: "nosuch"})
	}
	return qs
}

func c19Embedded(o *Out) {
	r := o.rng
	n := 300
	if o.tier == "thorough" {
		n = 5000
	}
	leaf := []string{"X", "Y", "Z"}
	top := []string{"X", "Y", "In", "D1", "D2", "p", "Q", "Z", "l"}
	sub := map[string][]string{"In": leaf, "D2": leaf, "Q": leaf, "l": leaf, "One": top, "Many": top}
	mk := func() *C19WithEmb {
		w := &C19WithEmb{C19EmbA: C19EmbA{X: r.Intn(9), Y: "y", In: c19Leaf(r), C19EmbDeep: C19EmbDeep{D1: r.Intn(9), D2: c19Leaf(r)}}, Z: r.Intn(9), L: c19Leaf(r)}
		if r.Intn(4) != 0 {
			w.C19EmbB = &C19EmbB{P: r.Intn(9), Q: []C19Leaf{c19Leaf(r), c19Leaf(r)}, Z: 99}
		}
		return w
	}
	for i := 0; i < n; i++ {
		var v interface{}
		var qs []*c19Q
		if i%3 == 0 {
			v = &C19HoldsEmb{ID: i, One: *mk(), Many: []*C19WithEmb{mk(), nil, mk()}}
			qs = c19EmbQuery(r, []string{"ID", "One", "Many"}, sub, 2)
		} else {
			v = mk()
			qs = c19EmbQuery(r, top, sub, 1)
			if i%30 == 1 {
				qs = nil // the query without fields selects nothing, of the embedded structs either
			}
		}
		full, err := stdjson.Marshal(v)
		if err != nil {
			continue
		}
		if plain, err := gojson.Marshal(v); err != nil || !tgSameJSON(plain, full) {
			o.count("types_where_plain_marshal_differs", 1)
			continue
		}
		tree, _ := c19Parse(full, 0)
		var w bytes.Buffer
		c19ProjectDoc(tree, qs).render(&w)
		q, err := gojson.BuildFieldQuery(c19Build(qs)...)
		if err != nil {
			o.violation("C19", "BuildFieldQuery failed", map[string]string{"query": c19Show(qs), "err": err.Error()})
			continue
		}
		ctx := gojson.SetFieldQueryToContext(context.Background(), q)
		o.current(map[string]string{"property": "C19", "type": reflect.TypeOf(v).String(), "query": c19Show(qs), "what": "embedded structs"})
		got, err := c01Safe(func() ([]byte, error) { return gojson.MarshalContext(ctx, v) })
		o.count("embedded_struct_query_encodings", 1)
		if err != nil || !tgSameJSON(got, w.Bytes()) {
			o.violation("C19", "a field query did not project exactly the selected fields (members taken from embedded structs)", map[string]string{
				"type": reflect.TypeOf(v).String(), "query": c19Show(qs), "err": errText(err), "got": clipN(string(got), 400), "want": clipN(w.String(), 400), "document": clipN(string(full), 400)})
		}
	}
}

func errText(err error) string {
	if err == nil {
		return ""
	}
	return err.Error()
}
