package main

func runC17Decode(o *Out) {}
