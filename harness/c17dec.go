package main

import (
	"bytes"
	"encoding/hex"
	stdjson "encoding/json"
	"fmt"
	"io"
	"strconv"
	"testing/iotest"

	gojson "github.com/goccy/go-json"
)

type textCap struct{ B []byte }

func (t *textCap) UnmarshalText(b []byte) error { t.B = append([]byte{}, b...); return nil }

var c17Items = []string{
	"a",
	"Z",
	" ",
	"/",
	"\u00e9",
	"\u20ac",
	"\U0001F600",
	"\u2028",
	"\ufffd",
	"\\\"",
	"\\\\",
	"\\/",
	"\\b",
	"\\f",
	"\\n",
	"\\r",
	"\\t",
	"\\u0041",
	"\\u00e9",
	"\\u00E9",
	"\\u20ac",
	"\\u0000",
	"\\u001f",
	"\\u2028",
	"\\ufffd",
	"\\ufffe",
	"\\ud83d",
	"\\ude00",
	"\\ud83d\\ude00",
	"\\udbff",
	"\\udc00",
	"\\ud800",
	"\\udfff",
	"\\x",
	"\\u12",
	"\\u12g4",
	"\\U0041",
	"\n",
	"\x01",
	"\x7f",
	"\\",
	"\\u",
	"\x00",
}

func strObs(err error, v *string) string {
	e := "0"
	if err != nil {
		e = "1"
	}
	val := "-"
	if v != nil {
		val = hex.EncodeToString([]byte(*v))
	}
	return "err=" + e + " value=" + val
}

// decode doc into a string destination with two sentinels to detect a store
func strDecode(unmarshal func([]byte, interface{}) error, doc []byte) string {
	var res [2]string
	var errs [2]error
	for i, sent := range []string{"\x01S1", "\x02S2"} {
		x := sent
		errs[i] = safeUnmarshal(unmarshal, doc, &x)
		res[i] = x
	}
	if errs[0] != nil && len(errs[0].Error()) > 5 && errs[0].Error()[:5] == "PANIC" {
		return "panic"
	}
	if res[0] == res[1] {
		return strObs(errs[0], &res[0])
	}
	return strObs(errs[0], nil)
}

func streamUnmarshal(one bool) func([]byte, interface{}) error {
	return func(b []byte, v interface{}) error {
		var r io.Reader = bytes.NewReader(b)
		if one {
			r = iotest.OneByteReader(r)
		}
		d := gojson.NewDecoder(r)
		if err := d.Decode(v); err != nil {
			return err
		}
		var rest interface{}
		if err := d.Decode(&rest); err != io.EOF {
			return fmt.Errorf("trailing data")
		}
		return nil
	}
}

func c17Dec(o *Out, lit string, toModel bool) {
	doc := []byte(`"` + lit + `"`)
	impl := strDecode(gojson.Unmarshal, doc)
	want := strDecode(stdjson.Unmarshal, doc)
	valid := stdjson.Valid(doc)
	o.count("decode_cases", 1)
	if toModel {
		// the oracle is only binding for valid literals (acceptance is C05's matter)
		o.emit("A", "c17.dec_buf", [][]byte{doc}, []byte(impl), []byte(want), valid)
	} else if valid && impl != want {
		o.emit("C", "c17.dec_buf", [][]byte{doc}, []byte(impl), []byte(want), true)
	}
	if !valid {
		if impl[:5] == "err=0" {
			o.hist("invalid_literal_accepted", "buffer")
		}
		return
	}
	// other positions and modes, valid literals only, against encoding/json
	type S struct {
		A string         `json:"a"`
		Q string         `json:"q,string"`
		T textCap        `json:"t"`
		I interface{}    `json:"i"`
		M map[string]int `json:"m"`
	}
	docs := []struct{ pos, doc string }{
		{"field", `{"a":"` + lit + `"}`},
		{"iface", `{"i":"` + lit + `"}`},
		{"mapkey", `{"m":{"` + lit + `":1}}`},
		{"text", `{"t":"` + lit + `"}`},
	}
	for _, d := range docs {
		var g, w S
		gerr := safeUnmarshal(gojson.Unmarshal, []byte(d.doc), &g)
		werr := stdjson.Unmarshal([]byte(d.doc), &w)
		gs, _ := stdjson.Marshal(g)
		ws, _ := stdjson.Marshal(w)
		o.count("decode_position_cases", 1)
		if (gerr != nil) != (werr != nil) || !bytes.Equal(gs, ws) {
			o.violation("C17", "string literal decoded differently from encoding/json", map[string]string{
				"position": d.pos, "doc": fmt.Sprintf("%q", d.doc), "impl": fmt.Sprintf("err=%v %s", gerr, gs), "oracle": fmt.Sprintf("err=%v %s", werr, ws)})
		}
		for _, one := range []bool{false, true} {
			var g2 S
			serr := safeUnmarshal(streamUnmarshal(one), []byte(d.doc), &g2)
			gs2, _ := stdjson.Marshal(g2)
			o.count("stream_position_cases", 1)
			if (serr != nil) != (werr != nil) || !bytes.Equal(gs2, ws) {
				o.violation("C17", "string literal decoded differently in stream mode", map[string]string{
					"position": d.pos, "onebyte": fmt.Sprint(one), "doc": fmt.Sprintf("%q", d.doc),
					"impl": fmt.Sprintf("err=%v %s", serr, gs2), "oracle": fmt.Sprintf("err=%v %s", werr, ws)})
			}
		}
	}
	// Token
	{
		gd := gojson.NewDecoder(bytes.NewReader(doc))
		gt, gerr := gd.Token()
		wd := stdjson.NewDecoder(bytes.NewReader(doc))
		wt, werr := wd.Token()
		o.count("token_cases", 1)
		if (gerr != nil) != (werr != nil) || fmt.Sprint(gt) != fmt.Sprint(wt) {
			o.violation("C17", "Token() string differs from encoding/json", map[string]string{"doc": fmt.Sprintf("%q", doc), "impl": fmt.Sprintf("%q %v", gt, gerr), "oracle": fmt.Sprintf("%q %v", wt, werr)})
		}
	}
}

func hasMultiByte(s string) bool {
	for i := 0; i < len(s); i++ {
		if s[i] >= 0x80 {
			return true
		}
	}
	return false
}

func runC17Decode(o *Out) {
	n := len(c17Items)
	depth := 3
	if o.tier == "thorough" {
		depth = 4
	}
	var rec func(prefix string, d int)
	cnt := 0
	rec = func(prefix string, d int) {
		cnt++
		c17Dec(o, prefix, cnt%3 == 0 || d >= depth-1)
		if d == 0 {
			return
		}
		for i := 0; i < n; i++ {
			if d < depth && depth == 4 && i%2 == 1 && d == 1 {
				continue
			}
			rec(prefix+c17Items[i], d-1)
		}
	}
	rec("", depth)
	// long literals: an escape at every offset around the 8/16 byte marks
	for off := 0; off < 20; off++ {
		for _, it := range []string{"\\n", "\\u00e9", "\\ud83d\\ude00", "\\ud83d", "\u00e9", "\U0001F600"} {
			s := string(bytes.Repeat([]byte("x"), off)) + it + "yy"
			c17Dec(o, s, true)
			c17Dec(o, s+it, true)
		}
	}
}

// ---------------------------------------------------------------------------
// audit wave 6: additional strata (see the notes of audit A6)
// ---------------------------------------------------------------------------

// c17QuoteAgain writes a JSON string literal whose value is the text inner (itself a
// JSON string literal): the payload of a ,string member.  unicode selects the " /
// \ spelling of the two characters that have to be escaped.
func c17QuoteAgain(inner string, unicode bool) string {
	var sb []byte
	sb = append(sb, '"')
	for i := 0; i < len(inner); i++ {
		switch c := inner[i]; {
		case c == '"' && unicode:
			sb = append(sb, `"`...)
		case c == '\\' && unicode:
			sb = append(sb, `\`...)
		case c == '"' || c == '\\':
			sb = append(sb, '\\', c)
		default:
			sb = append(sb, c)
		}
	}
	return string(append(sb, '"'))
}

type c17DecMode struct {
	name string
	f    func([]byte, interface{}) error
}

var c17DecModes = []c17DecMode{{"Unmarshal", gojson.Unmarshal}, {"Decoder", streamUnmarshal(false)}, {"Decoder/1-byte reader", streamUnmarshal(true)}}

// positions the older list leaves out: the ,string payload (named in the property), a
// key of an object decoded into interface{}, a pointer member, a named string type and
// a slice element; encoding/json is the oracle, in the three modes.
type c17S2 struct {
	Q  string      `json:"q,string"`
	QP *string     `json:"qp,string"`
	I  interface{} `json:"i"`
	P  *string     `json:"p"`
	N  c17Named    `json:"n"`
	L  []string    `json:"l"`
	K  map[c17TextM]int
}

func c17DecMorePositions(o *Out, lit string, variant int, modes []c17DecMode) {
	q := c17QuoteAgain(`"`+lit+`"`, variant%2 == 1)
	docs := []struct{ pos, doc string }{
		{"stringtag", `{"q":` + q + `}`},
		{"ptrstringtag", `{"qp":` + q + `}`},
		{"ifacekey", `{"i":{"` + lit + `":"` + lit + `"}}`},
		{"ptr+named+slice", `{"p":"` + lit + `","n":"` + lit + `","l":["` + lit + `","x","` + lit + `"]}`},
		{"textkey", `{"K":{"` + lit + `":1}}`},
	}
	for _, d := range docs {
		var w c17S2
		werr := stdjson.Unmarshal([]byte(d.doc), &w)
		ws, _ := stdjson.Marshal(w)
		for _, m := range modes {
			var g c17S2
			gerr := safeUnmarshal(m.f, []byte(d.doc), &g)
			gs, _ := stdjson.Marshal(g)
			o.count("decode_more_position_cases", 1)
			if (gerr != nil) != (werr != nil) || (gerr == nil && !bytes.Equal(gs, ws)) {
				o.violation("C17", "string literal decoded differently from encoding/json", map[string]string{
					"position": d.pos, "mode": m.name, "doc": fmt.Sprintf("%q", d.doc), "impl": fmt.Sprintf("err=%v %s", gerr, gs), "oracle": fmt.Sprintf("err=%v %s", werr, ws)})
			}
		}
	}
}

// c17TokenSeq: the literal as object key and as array element, token by token
func c17TokenSeq(o *Out, lit string) {
	doc := []byte(`{"` + lit + `":["` + lit + `"]}`)
	seq := func(next func() (interface{}, error)) string {
		var sb []byte
		for i := 0; i < 16; i++ {
			t, err := next()
			if err != nil {
				sb = append(sb, fmt.Sprintf("|err=%v", err == io.EOF)...)
				break
			}
			sb = append(sb, fmt.Sprintf("|%T %q", t, fmt.Sprint(t))...)
		}
		return string(sb)
	}
	for _, one := range []bool{false, true} {
		var r io.Reader = bytes.NewReader(doc)
		if one {
			r = iotest.OneByteReader(r)
		}
		gd := gojson.NewDecoder(r)
		var got string
		if err := safeCall(func() error { got = seq(func() (interface{}, error) { return gd.Token() }); return nil }); err != nil {
			got = err.Error()
		}
		wd := stdjson.NewDecoder(bytes.NewReader(doc))
		want := seq(func() (interface{}, error) { return wd.Token() })
		o.count("token_sequence_cases", 1)
		if got != want {
			o.violation("C17", "Token() sequence with the literal as key and element differs from encoding/json",
				map[string]string{"doc": fmt.Sprintf("%q", doc), "onebyte": fmt.Sprint(one), "impl": got, "oracle": want})
		}
	}
}

// raw bytes that are not UTF-8 inside a literal (a valid JSON text for encoding/json,
// which reads each as U+FFFD).  Unmarshal keeps such bytes for string, interface{} and
// map-key destinations: recorded as BufferKeepsInvalidUTF8 under C09, so those
// position/mode pairs are left to C09 and only counted here; the Decoder and the
// TextUnmarshaler payload (unquoteBytes, both modes) are compared.
var c17RawInvalid = []string{"\xff", "\xc3", "\xc3(", "\xe2\x82", "\xe2\x82x", "\xed\xa0\x80", "\xf4\x90\x80\x80", "\xc0\x80", "\xf0\x9f\x98", "\x80", "\xbf\xbf",
	"\xef\xbf", "\xef\xbf\xbd", "\xef\xbf\xbe", "\xe2\x80\xa8", "\xf8\x88\x80\x80\x80"}

func c17DecInvalidUTF8(o *Out) {
	ctx := []string{"", "a", "\\n", "\\u00e9", "\\ud83d\\ude00", "é", "\\ud800", "abcdefgh", "\\\\"}
	for _, raw := range c17RawInvalid {
		for _, pre := range ctx {
			for _, post := range ctx {
				lit := pre + raw + post
				if !stdjson.Valid([]byte(`"` + lit + `"`)) {
					continue
				}
				type S struct {
					A string         `json:"a"`
					T textCap        `json:"t"`
					I interface{}    `json:"i"`
					M map[string]int `json:"m"`
				}
				docs := []struct{ pos, doc string }{
					{"field", `{"a":"` + lit + `"}`}, {"iface", `{"i":"` + lit + `"}`}, {"mapkey", `{"m":{"` + lit + `":1}}`}, {"text", `{"t":"` + lit + `"}`}}
				for _, d := range docs {
					var w S
					werr := stdjson.Unmarshal([]byte(d.doc), &w)
					ws, _ := stdjson.Marshal(w)
					for mi, m := range c17DecModes {
						if mi == 0 && d.pos != "text" {
							o.count("invalid_utf8_buffer_mode_left_to_C09", 1)
							continue
						}
						var g S
						gerr := safeUnmarshal(m.f, []byte(d.doc), &g)
						gs, _ := stdjson.Marshal(g)
						o.count("invalid_utf8_decode_cases", 1)
						if (gerr != nil) != (werr != nil) || !bytes.Equal(gs, ws) {
							o.violation("C17", "literal with bytes that are not UTF-8 decoded differently from encoding/json", map[string]string{
								"position": d.pos, "mode": m.name, "doc": fmt.Sprintf("%q", d.doc), "impl": fmt.Sprintf("err=%v %s", gerr, gs), "oracle": fmt.Sprintf("err=%v %s", werr, ws)})
						}
					}
				}
			}
		}
	}
}

// long literals: hundreds of escapes in one literal (each one shifts the rest of the
// window in stream mode and moves the write pointer in buffer mode), lengths beyond the
// first stream windows, in every position and mode
func c17DecLong(o *Out) {
	var valid []string
	for _, it := range c17Items {
		if stdjson.Valid([]byte(`"` + it + `"`)) {
			valid = append(valid, it)
		}
	}
	n := 60
	maxItems := 1200
	if o.tier == "thorough" {
		n, maxItems = 150, 2000
	}
	for i := 0; i < n; i++ {
		k := 30 + o.rng.Intn(maxItems)
		if i%4 == 0 {
			k = 30 + o.rng.Intn(120)
		}
		var sb []byte
		plainRun := o.rng.Intn(3) == 0
		for j := 0; j < k; j++ {
			if plainRun && o.rng.Intn(4) != 0 {
				sb = append(sb, "abcdefghijklmnopqrstuvwxyz"[o.rng.Intn(26)])
				continue
			}
			sb = append(sb, valid[o.rng.Intn(len(valid))]...)
		}
		lit := string(sb)
		o.hist("long_literal_bytes", strconv.Itoa(len(lit)/512*512)+"+")
		c17Dec(o, lit, false)
		c17DecMorePositions(o, lit, i, c17DecModes)
		c17TokenSeq(o, lit)
		o.count("long_literals", 1)
	}
}

func c17DecStrata(o *Out) {
	// the positions the older list leaves out, for every valid literal of the enumeration up to two
	// items (and a sample of the three-item ones), and the token sequences
	n := len(c17Items)
	cnt := 0
	var rec func(prefix string, d int)
	rec = func(prefix string, d int) {
		if stdjson.Valid([]byte(`"` + prefix + `"`)) {
			cnt++
			c17DecMorePositions(o, prefix, cnt, c17DecModes)
			c17TokenSeq(o, prefix)
		}
		if d == 0 {
			return
		}
		for i := 0; i < n; i++ {
			rec(prefix+c17Items[i], d-1)
		}
	}
	rec("", 2)
	nr := 5000
	if o.tier == "thorough" {
		nr = 100000
	}
	for i := 0; i < nr; i++ {
		k := 3 + o.rng.Intn(4)
		lit := ""
		for j := 0; j < k; j++ {
			lit += c17Items[o.rng.Intn(n)]
		}
		if stdjson.Valid([]byte(`"` + lit + `"`)) {
			cnt++
			c17DecMorePositions(o, lit, cnt, c17DecModes)
			if i%4 == 0 {
				c17TokenSeq(o, lit)
			}
		}
	}
	o.count("decode_more_literals", int64(cnt))
	c17DecInvalidUTF8(o)
	c17DecLong(o)
}
