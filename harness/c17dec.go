package main

import (
	"bytes"
	stdjson "encoding/json"
	"encoding/hex"
	"fmt"
	"io"
	"testing/iotest"

	gojson "github.com/goccy/go-json"
)

type textCap struct{ B []byte }

func (t *textCap) UnmarshalText(b []byte) error { t.B = append([]byte{}, b...); return nil }

var c17Items = []string{
	"a",
	"Z",
	" ",
	"/",
	"\u00e9",
	"\u20ac",
	"\U0001F600",
	"\u2028",
	"\ufffd",
	"\\\"",
	"\\\\",
	"\\/",
	"\\b",
	"\\f",
	"\\n",
	"\\r",
	"\\t",
	"\\u0041",
	"\\u00e9",
	"\\u00E9",
	"\\u20ac",
	"\\u0000",
	"\\u001f",
	"\\u2028",
	"\\ufffd",
	"\\ufffe",
	"\\ud83d",
	"\\ude00",
	"\\ud83d\\ude00",
	"\\udbff",
	"\\udc00",
	"\\ud800",
	"\\udfff",
	"\\x",
	"\\u12",
	"\\u12g4",
	"\\U0041",
	"\n",
	"\x01",
	"\x7f",
	"\\",
	"\\u",
	"\x00",
}

func strObs(err error, v *string) string {
	e := "0"
	if err != nil {
		e = "1"
	}
	val := "-"
	if v != nil {
		val = hex.EncodeToString([]byte(*v))
	}
	return "err=" + e + " value=" + val
}

// decode doc into a string destination with two sentinels to detect a store
func strDecode(unmarshal func([]byte, interface{}) error, doc []byte) string {
	var res [2]string
	var errs [2]error
	for i, sent := range []string{"\x01S1", "\x02S2"} {
		x := sent
		errs[i] = safeUnmarshal(unmarshal, doc, &x)
		res[i] = x
	}
	if errs[0] != nil && len(errs[0].Error()) > 5 && errs[0].Error()[:5] == "PANIC" {
		return "panic"
	}
	if res[0] == res[1] {
		return strObs(errs[0], &res[0])
	}
	return strObs(errs[0], nil)
}

func streamUnmarshal(one bool) func([]byte, interface{}) error {
	return func(b []byte, v interface{}) error {
		var r io.Reader = bytes.NewReader(b)
		if one {
			r = iotest.OneByteReader(r)
		}
		d := gojson.NewDecoder(r)
		if err := d.Decode(v); err != nil {
			return err
		}
		var rest interface{}
		if err := d.Decode(&rest); err != io.EOF {
			return fmt.Errorf("trailing data")
		}
		return nil
	}
}

func c17Dec(o *Out, lit string, toModel bool) {
	doc := []byte(`"` + lit + `"`)
	impl := strDecode(gojson.Unmarshal, doc)
	want := strDecode(stdjson.Unmarshal, doc)
	valid := stdjson.Valid(doc)
	o.count("decode_cases", 1)
	if toModel {
		// the oracle is only binding for valid literals (acceptance is C05's matter)
		o.emit("A", "c17.dec_buf", [][]byte{doc}, []byte(impl), []byte(want), valid)
	} else if valid && impl != want {
		o.emit("C", "c17.dec_buf", [][]byte{doc}, []byte(impl), []byte(want), true)
	}
	if !valid {
		if impl[:5] == "err=0" {
			o.hist("invalid_literal_accepted", "buffer")
		}
		return
	}
	// other positions and modes, valid literals only, against encoding/json
	type S struct {
		A string   `json:"a"`
		Q string   `json:"q,string"`
		T textCap  `json:"t"`
		I interface{} `json:"i"`
		M map[string]int `json:"m"`
	}
	docs := []struct{ pos, doc string }{
		{"field", `{"a":"` + lit + `"}`},
		{"iface", `{"i":"` + lit + `"}`},
		{"mapkey", `{"m":{"` + lit + `":1}}`},
		{"text", `{"t":"` + lit + `"}`},
	}
	for _, d := range docs {
		var g, w S
		gerr := safeUnmarshal(gojson.Unmarshal, []byte(d.doc), &g)
		werr := stdjson.Unmarshal([]byte(d.doc), &w)
		gs, _ := stdjson.Marshal(g)
		ws, _ := stdjson.Marshal(w)
		o.count("decode_position_cases", 1)
		if (gerr != nil) != (werr != nil) || !bytes.Equal(gs, ws) {
			o.violation("C17", "string literal decoded differently from encoding/json", map[string]string{
				"position": d.pos, "doc": fmt.Sprintf("%q", d.doc), "impl": fmt.Sprintf("err=%v %s", gerr, gs), "oracle": fmt.Sprintf("err=%v %s", werr, ws)})
		}
		for _, one := range []bool{false, true} {
			var g2 S
			serr := safeUnmarshal(streamUnmarshal(one), []byte(d.doc), &g2)
			gs2, _ := stdjson.Marshal(g2)
			o.count("stream_position_cases", 1)
			if (serr != nil) != (werr != nil) || !bytes.Equal(gs2, ws) {
				o.violation("C17", "string literal decoded differently in stream mode", map[string]string{
					"position": d.pos, "onebyte": fmt.Sprint(one), "doc": fmt.Sprintf("%q", d.doc),
					"impl": fmt.Sprintf("err=%v %s", serr, gs2), "oracle": fmt.Sprintf("err=%v %s", werr, ws)})
			}
		}
	}
	// Token
	{
		gd := gojson.NewDecoder(bytes.NewReader(doc))
		gt, gerr := gd.Token()
		wd := stdjson.NewDecoder(bytes.NewReader(doc))
		wt, werr := wd.Token()
		o.count("token_cases", 1)
		if (gerr != nil) != (werr != nil) || fmt.Sprint(gt) != fmt.Sprint(wt) {
			o.violation("C17", "Token() string differs from encoding/json", map[string]string{"doc": fmt.Sprintf("%q", doc), "impl": fmt.Sprintf("%q %v", gt, gerr), "oracle": fmt.Sprintf("%q %v", wt, werr)})
		}
	}
}

func hasMultiByte(s string) bool {
	for i := 0; i < len(s); i++ {
		if s[i] >= 0x80 {
			return true
		}
	}
	return false
}

func runC17Decode(o *Out) {
	n := len(c17Items)
	depth := 3
	if o.tier == "thorough" {
		depth = 4
	}
	var rec func(prefix string, d int)
	cnt := 0
	rec = func(prefix string, d int) {
		cnt++
		c17Dec(o, prefix, cnt%3 == 0 || d >= depth-1)
		if d == 0 {
			return
		}
		for i := 0; i < n; i++ {
			if d < depth && depth == 4 && i%2 == 1 && d == 1 {
				continue
			}
			rec(prefix+c17Items[i], d-1)
		}
	}
	rec("", depth)
	// long literals: an escape at every offset around the 8/16 byte marks
	for off := 0; off < 20; off++ {
		for _, it := range []string{"\\n", "\\u00e9", "\\ud83d\\ude00", "\\ud83d", "\u00e9", "\U0001F600"} {
			s := string(bytes.Repeat([]byte("x"), off)) + it + "yy"
			c17Dec(o, s, true)
			c17Dec(o, s+it, true)
		}
	}
}
