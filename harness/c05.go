package main

import (
	"strings"
	"bytes"
	"regexp"
	"strconv"
	stdjson "encoding/json"
	"fmt"
	"io"
	"testing/iotest"

	gojson "github.com/goccy/go-json"
)

func init() { props["C05"] = runC05 }

type c05Skip struct {
	A int `json:"A"`
}
type c05Raw struct {
	A int              `json:"A"`
	R stdjson.RawMessage `json:"x"`
}
type c05U struct{ n int }

func (u *c05U) UnmarshalJSON(b []byte) error { u.n++; return nil }

type c05WithU struct {
	A int   `json:"A"`
	U c05U  `json:"x"`
}

type c05TextU struct{ s string }

func (u *c05TextU) UnmarshalText(b []byte) error { u.s = string(b); return nil }

type c05WithText struct {
	A int      `json:"A"`
	T c05TextU `json:"x"`
}

// verdict of one entry point: 'A' accept, 'R' reject, 'P' panic
func verdict(f func() error) byte {
	err := safeCall(f)
	if err == nil {
		return 'A'
	}
	if len(err.Error()) > 5 && err.Error()[:5] == "PANIC" {
		return 'P'
	}
	return 'R'
}

func streamDecode(b []byte, v interface{}, one bool) error {
	var r io.Reader = bytes.NewReader(b)
	if one {
		r = iotest.OneByteReader(r)
	}
	d := gojson.NewDecoder(r)
	if err := d.Decode(v); err != nil {
		return err
	}
	// the whole input must be one text: nothing but white space may follow
	var rest interface{}
	if err := d.Decode(&rest); err != io.EOF {
		return fmt.Errorf("trailing data")
	}
	return nil
}

// the observable of C05 for one byte string: verdicts of
// Valid, Unmarshal(iface), Decode(iface) whole / 1-byte
func c05Obs(b []byte) []byte {
	out := make([]byte, 0, 4)
	if gojson.Valid(b) {
		out = append(out, 'A')
	} else {
		out = append(out, 'R')
	}
	out = append(out, verdict(func() error { var v interface{}; return gojson.Unmarshal(b, &v) }))
	out = append(out, verdict(func() error { var v interface{}; return streamDecode(b, &v, false) }))
	out = append(out, verdict(func() error { var v interface{}; return streamDecode(b, &v, true) }))
	return out
}

func c05Oracle(b []byte) []byte {
	// the RFC 8259 language = encoding/json.Valid; Unmarshal into interface{}
	// additionally needs every number to fit float64 (as in encoding/json)
	v := byte('R')
	if stdjson.Valid(b) {
		v = 'A'
	}
	var x interface{}
	u := byte('R')
	if stdjson.Unmarshal(b, &x) == nil {
		u = 'A'
	}
	return []byte{v, u, u, u}
}

// typed destinations that skip, ignore or delegate parts of the document
func c05Typed(o *Out, b []byte) {
	valid := stdjson.Valid(b)
	dests := []struct {
		name string
		mk   func() interface{}
	}{
		{"skip", func() interface{} { return &c05Skip{} }},
		{"raw", func() interface{} { return &c05Raw{} }},
		{"unmarshaler", func() interface{} { return &c05WithU{} }},
		{"array1", func() interface{} { return &[1]int{} }},
		{"slice-of-skip", func() interface{} { return &[]c05Skip{} }},
		{"map-of-skip", func() interface{} { return &map[string]c05Skip{} }},
		{"text", func() interface{} { return &c05WithText{} }},
		{"text-in-iface", func() interface{} { var i interface{} = &c05TextU{}; return &i }},
	}
	for _, d := range dests {
		for mode := 0; mode < 3; mode++ {
			var v byte
			switch mode {
			case 0:
				v = verdict(func() error { return gojson.Unmarshal(b, d.mk()) })
			case 1:
				v = verdict(func() error { return streamDecode(b, d.mk(), false) })
			default:
				v = verdict(func() error { return streamDecode(b, d.mk(), true) })
			}
			o.count("typed_cases", 1)
			if v == 'P' {
				o.violation("C05", "panic while decoding", map[string]string{"dest": d.name, "mode": fmt.Sprint(mode), "input": fmt.Sprintf("%q", b)})
			}
			if v == 'A' && !valid {
				// no destination may make decoding succeed outside the language
				cls := classifyC05(b, d.name, mode)
				if cls != "" {
					o.known(cls, fmt.Sprintf("%s mode=%d %q", d.name, mode, b))
				} else {
					o.violation("C05", "typed destination accepted a text outside the RFC 8259 language",
						map[string]string{"dest": d.name, "mode": fmt.Sprint(mode), "input": fmt.Sprintf("%q", b)})
				}
			}
		}
	}
}

// frozen classes of recorded findings (see KNOWN_FINDINGS.txt); "" = none
func classifyC05(b []byte, dest string, mode int) string {
	if mode != 0 {
		// the stream decoder skips one leading ',' or ':' (StreamLeadingSeparator)
		t := bytes.TrimLeft(b, " \t\r\n")
		if len(t) > 0 && (t[0] == ',' || t[0] == ':') {
			rest := t[1:]
			if stdjson.Valid(rest) {
				return "StreamLeadingSeparator"
			}
			if c := classifyC05(rest, dest, 0); c != "" {
				return c
			}
			return ""
		}
	}
	if shapeAccepts(dest, b, false, false) {
		return "" // the strict acceptor takes it although encoding/json.Valid does not: unexplained
	}
	// the buffer-mode skip functions check what they step over (repaired); the stream-mode ones do not yet
	if mode != 0 && shapeAccepts(dest, b, true, false) {
		return "SkipUnvalidated"
	}
	if shapeAccepts(dest, b, false, true) {
		return "StructKeyUnvalidated"
	}
	if mode != 0 && shapeAccepts(dest, b, true, true) {
		return "SkipUnvalidated"
	}
	if mode != 0 && (bytes.IndexByte(b, '\\') >= 0 || bytes.IndexByte(b, 0) >= 0) {
		// the stream-mode key and skip scanners lose track around an escape or
		// a NUL byte (recorded as StreamSkipScannerLenient): explained when the
		// text without its backslash pairs and NUL bytes is one of the lenient ones
		var t []byte
		for i := 0; i < len(b); i++ {
			if b[i] == 0 {
				continue
			}
			if b[i] == '\\' {
				i++
				continue
			}
			t = append(t, b[i])
		}
		if stdjson.Valid(t) || shapeAccepts(dest, t, true, true) {
			return "StreamSkipScannerLenient"
		}
	}
	if mode != 0 && dest != "array1" && bytes.IndexByte(b, '\\') >= 0 {
		// stream-mode struct key scanners around an escaped quote: the stream
		// decoder accepts what the buffer decoder of the same destination rejects
		var mk func() interface{}
		switch dest {
		case "skip":
			mk = func() interface{} { return &c05Skip{} }
		case "raw":
			mk = func() interface{} { return &c05Raw{} }
		case "unmarshaler":
			mk = func() interface{} { return &c05WithU{} }
		case "slice-of-skip":
			mk = func() interface{} { return &[]c05Skip{} }
		case "map-of-skip":
			mk = func() interface{} { return &map[string]c05Skip{} }
		case "text":
			mk = func() interface{} { return &c05WithText{} }
		}
		if mk != nil && verdict(func() error { return gojson.Unmarshal(b, mk()) }) == 'R' {
			return "StreamStructKeyLenient"
		}
	}
	return ""
}

func bytesReader(b []byte) *bytes.Reader { return bytes.NewReader(b) }

var numRe = regexp.MustCompile(`-?[0-9][0-9.eE+-]*`)

// every maximal run of number characters that strconv can parse fits float64
func numbersInRange(b []byte) bool {
	for _, m := range numRe.FindAll(b, -1) {
		if _, err := strconv.ParseFloat(string(m), 64); err != nil {
			if ne, ok := err.(*strconv.NumError); ok && ne.Err == strconv.ErrRange {
				return false
			}
		}
	}
	return true
}

// what the skip functions make of a text: Unmarshal into a RawMessage is skipWhiteSpace, skipValue and the
// end-of-input check, and hands the skipped bytes to the destination
func c05SkipObs(b []byte) []byte {
	var raw gojson.RawMessage
	if err := safeCall(func() error { return gojson.Unmarshal(b, &raw) }); err != nil {
		if strings.HasPrefix(err.Error(), "PANIC") {
			return []byte("panic")
		}
		return []byte("R")
	}
	return []byte("A" + strconv.Itoa(len(raw)))
}

func c05Text(o *Out, b []byte, typed bool) {
	if len(b) <= 4 || o.Stats["verdict_cases"]%7 == 0 || typed {
		o.emit("A", "c05.skip", [][]byte{b}, c05SkipObs(b), nil, false)
	}
	got := c05Obs(b)
	want := c05Oracle(b)
	o.count("verdict_cases", 1)
	if len(b) <= 4 || o.Stats["verdict_cases"]%13 == 0 || typed {
		flag := []byte("1")
		if !numbersInRange(b) {
			flag = []byte("0")
		}
		o.emit("A", "c05.iface", [][]byte{flag, b}, got[1:2], want[1:2], true)
	}
	if !bytes.Equal(got, want) {
		// frozen class of a recorded finding: the stream decoder (Decoder.Decode,
		// and Valid which is built on it) skips ONE leading ',' or ':' before a value
		t := bytes.TrimLeft(b, " \t\r\n")
		if len(t) > 0 && (t[0] == ',' || t[0] == ':') && got[1] == want[1] {
			rest := t[1:]
			w2 := c05Oracle(rest)
			g2 := c05Obs(rest)
			if bytes.Equal(g2, w2) && got[0] == g2[0] && got[2] == g2[2] && got[3] == g2[3] {
				o.known("StreamLeadingSeparator", fmt.Sprintf("%q", b))
				o.hist("verdict_known", string(got)+" vs "+string(want))
				goto TYPED
			}
		}
		o.emit("C", "c05.verdicts", [][]byte{b}, got, want, true)
		o.hist("verdict_mismatch", string(got)+" vs "+string(want))
	}
TYPED:
	if typed {
		c05Typed(o, b)
	}
}

func runC05(o *Out) {
	thorough := o.tier == "thorough"
	for _, d := range corpusDocs {
		c05Text(o, []byte(d), true)
	}
	byteSweep(func(b []byte) { c05Text(o, b, true) })
	maxLen := 4
	if thorough {
		maxLen = 5
	}
	n := 0
	enumStrings(alphabet27, maxLen, func(b []byte) {
		n++
		c05Text(o, append([]byte{}, b...), len(b) <= 3 || n%17 == 0)
	})
	ndocs := 1500
	if thorough {
		ndocs = 20000
	}
	for i := 0; i < ndocs; i++ {
		d := genDoc(o.rng, 3)
		c05Text(o, []byte(d), true)
		// wrap so that the generated text lands in a skipped / delegated position
		for _, w := range []string{`{"x":%s,"A":1}`, `{"A":1,"x":%s}`, `[%s,2]`, `{"k":{"x":%s}}`} {
			c05Text(o, []byte(fmt.Sprintf(w, d)), true)
		}
		if i%4 == 0 {
			k := 0
			mutations(d, alphabet27, 5, func(m string) {
				k++
				c05Text(o, []byte(m), k%3 == 0)
				if k%6 == 0 {
					c05Text(o, []byte(`{"x":`+m+`,"A":1}`), true)
				}
			})
		}
	}
}
