package main

import (
	"bytes"
	"context"
	stdjson "encoding/json"
	"fmt"
	"io"
	"os"
	"reflect"
	"regexp"
	"strconv"
	"strings"
	"testing/iotest"
	"time"

	gojson "github.com/goccy/go-json"
)

func init() { props["C05"] = runC05 }

type c05Skip struct {
	A int `json:"A"`
}
type c05Raw struct {
	A int                `json:"A"`
	R stdjson.RawMessage `json:"x"`
}
type c05U struct{ n int }

func (u *c05U) UnmarshalJSON(b []byte) error { u.n++; return nil }

type c05WithU struct {
	A int  `json:"A"`
	U c05U `json:"x"`
}

type c05TextU struct{ s string }

func (u *c05TextU) UnmarshalText(b []byte) error { u.s = string(b); return nil }

type c05WithText struct {
	A int      `json:"A"`
	T c05TextU `json:"x"`
}

// verdict of one entry point: 'A' accept, 'R' reject, 'P' panic
func verdict(f func() error) byte {
	err := safeCall(f)
	if err == nil {
		return 'A'
	}
	if len(err.Error()) > 5 && err.Error()[:5] == "PANIC" {
		return 'P'
	}
	return 'R'
}

func streamDecode(b []byte, v interface{}, one bool) error {
	var r io.Reader = bytes.NewReader(b)
	if one {
		r = iotest.OneByteReader(r)
	}
	d := gojson.NewDecoder(r)
	if err := d.Decode(v); err != nil {
		return err
	}
	// the whole input must be one text: nothing but white space may follow
	var rest interface{}
	if err := d.Decode(&rest); err != io.EOF {
		return fmt.Errorf("trailing data")
	}
	return nil
}

// the observable of C05 for one byte string: verdicts of
// Valid, Unmarshal(iface), Decode(iface) whole / 1-byte
func c05Obs(b []byte) []byte {
	out := make([]byte, 0, 4)
	// (audit A1) Valid runs the stream decoder: a panic in it is a verdict ('P'), not the end of the run
	out = append(out, verdict(func() error {
		if !gojson.Valid(b) {
			return fmt.Errorf("not valid")
		}
		return nil
	}))
	out = append(out, verdict(func() error { var v interface{}; return gojson.Unmarshal(b, &v) }))
	out = append(out, verdict(func() error { var v interface{}; return streamDecode(b, &v, false) }))
	out = append(out, verdict(func() error { var v interface{}; return streamDecode(b, &v, true) }))
	return out
}

func c05Oracle(b []byte) []byte {
	// the RFC 8259 language = encoding/json.Valid; Unmarshal into interface{}
	// additionally needs every number to fit float64 (as in encoding/json)
	v := byte('R')
	if stdjson.Valid(b) {
		v = 'A'
	}
	var x interface{}
	u := byte('R')
	if stdjson.Unmarshal(b, &x) == nil {
		u = 'A'
	}
	return []byte{v, u, u, u}
}

// (audit A1) the struct key matcher has three forms, chosen by the number of fields and the
// length of the longest key (internal/decoder/struct.go tryOptimize): a bitmap of 8 bits
// (up to 8 fields: every struct above), a bitmap of 16 bits (9..16 fields) and a map lookup
// behind the string decoder (more than 16 fields, or a key longer than 64 bytes).  The field
// names are keys the generators write ("A", "a", "abc", "k", "0", "key with space" ...), so
// that the matchers are entered, left early and left late.
type c05Skip16 struct {
	A   int `json:"A"`
	Abc int `json:"abc"`
	K   int `json:"k"`
	Z   int `json:"0"`
	Kws int `json:"key with space"`
	Ab  int `json:"ab"`
	E   int `json:"é"`
	Lt  int `json:"<>&"`
	Sp  int `json:" "`
	Key int `json:"key"`
}

type c05SkipMap struct {
	A, B, C, D, E, F, G, H, I, J, L, M, N, O, P int
	Abc                                         int `json:"abc"`
	K                                           int `json:"k"`
	Z                                           int `json:"0"`
}

type c05SkipLongKey struct {
	A    int `json:"A"`
	Long int `json:"kkkkkkkkkkkkkkkkkkkkkkkkkkkkkkkkkkkkkkkkkkkkkkkkkkkkkkkkkkkkkkkkkkkkkkkkkkkkkkkk"`
}

type c05Dest struct {
	name string
	mk   func() interface{}
}

var c05Dests = []c05Dest{
	{"skip", func() interface{} { return &c05Skip{} }},
	{"raw", func() interface{} { return &c05Raw{} }},
	{"unmarshaler", func() interface{} { return &c05WithU{} }},
	{"array1", func() interface{} { return &[1]int{} }},
	{"slice-of-skip", func() interface{} { return &[]c05Skip{} }},
	{"map-of-skip", func() interface{} { return &map[string]c05Skip{} }},
	{"text", func() interface{} { return &c05WithText{} }},
	{"text-in-iface", func() interface{} { var i interface{} = &c05TextU{}; return &i }},
	// (audit A1) the other two key matchers
	{"skip16", func() interface{} { return &c05Skip16{} }},
	{"skipmap", func() interface{} { return &c05SkipMap{} }},
	{"skiplongkey", func() interface{} { return &c05SkipLongKey{} }},
}

func c05DestByName(name string) func() interface{} {
	for _, d := range c05Dests {
		if d.name == name {
			return d.mk
		}
	}
	return nil
}

// typed destinations that skip, ignore or delegate parts of the document
func c05Typed(o *Out, b []byte) {
	valid := stdjson.Valid(b)
	for _, d := range c05Dests {
		if d.name == "skiplongkey" && o.tier != "thorough" {
			continue // the same matcher as skipmap
		}
		for mode := 0; mode < 3; mode++ {
			var v byte
			switch mode {
			case 0:
				v = verdict(func() error { return gojson.Unmarshal(b, d.mk()) })
			case 1:
				v = verdict(func() error { return streamDecode(b, d.mk(), false) })
			default:
				v = verdict(func() error { return streamDecode(b, d.mk(), true) })
			}
			o.count("typed_cases", 1)
			if v == 'P' {
				o.violation("C05", "panic while decoding", map[string]string{"dest": d.name, "mode": fmt.Sprint(mode), "input": fmt.Sprintf("%q", b)})
			}
			if v == 'A' && !valid {
				// no destination may make decoding succeed outside the language
				cls := classifyC05(b, d.name, mode)
				if cls != "" {
					o.known(cls, fmt.Sprintf("%s mode=%d %q", d.name, mode, b))
				} else {
					o.violation("C05", "typed destination accepted a text outside the RFC 8259 language",
						map[string]string{"dest": d.name, "mode": fmt.Sprint(mode), "input": fmt.Sprintf("%q", b)})
				}
			}
		}
	}
}

// frozen classes of recorded findings (see KNOWN_FINDINGS.txt); "" = none
func classifyC05(b []byte, dest string, mode int) string {
	if mode != 0 {
		// the stream decoder skips one leading ',' or ':' (StreamLeadingSeparator)
		t := bytes.TrimLeft(b, " \t\r\n")
		if len(t) > 0 && (t[0] == ',' || t[0] == ':') {
			rest := t[1:]
			if stdjson.Valid(rest) {
				return "StreamLeadingSeparator"
			}
			if c := classifyC05(rest, dest, 0); c != "" {
				return c
			}
			return ""
		}
	}
	if shapeAccepts(dest, b, false, false) {
		return "" // the strict acceptor takes it although encoding/json.Valid does not: unexplained
	}
	// the buffer-mode skip functions check what they step over (repaired); the stream-mode ones do not yet
	if mode != 0 && shapeAccepts(dest, b, true, false) {
		return "SkipUnvalidated"
	}
	if shapeAccepts(dest, b, false, true) {
		return "StructKeyUnvalidated"
	}
	if mode != 0 && shapeAccepts(dest, b, true, true) {
		return "SkipUnvalidated"
	}
	if mode != 0 && (bytes.IndexByte(b, '\\') >= 0 || bytes.IndexByte(b, 0) >= 0) {
		// the stream-mode key and skip scanners lose track around an escape or
		// a NUL byte (recorded as StreamSkipScannerLenient): explained when the
		// text without its backslash pairs and NUL bytes is one of the lenient ones
		var t []byte
		for i := 0; i < len(b); i++ {
			if b[i] == 0 {
				continue
			}
			if b[i] == '\\' {
				i++
				continue
			}
			t = append(t, b[i])
		}
		if stdjson.Valid(t) || shapeAccepts(dest, t, true, true) {
			return "StreamSkipScannerLenient"
		}
	}
	if mode != 0 && dest != "array1" && bytes.IndexByte(b, '\\') >= 0 {
		// stream-mode struct key scanners around an escaped quote: the stream
		// decoder accepts what the buffer decoder of the same destination rejects
		var mk func() interface{}
		if dest != "text-in-iface" { // a destination with a struct in it
			mk = c05DestByName(dest)
		}
		if mk != nil && verdict(func() error { return gojson.Unmarshal(b, mk()) }) == 'R' {
			return "StreamStructKeyLenient"
		}
	}
	return ""
}

func bytesReader(b []byte) *bytes.Reader { return bytes.NewReader(b) }

var numRe = regexp.MustCompile(`-?[0-9][0-9.eE+-]*`)

// every maximal run of number characters that strconv can parse fits float64
func numbersInRange(b []byte) bool {
	for _, m := range numRe.FindAll(b, -1) {
		if _, err := strconv.ParseFloat(string(m), 64); err != nil {
			if ne, ok := err.(*strconv.NumError); ok && ne.Err == strconv.ErrRange {
				return false
			}
		}
	}
	return true
}

// what the skip functions make of a text: Unmarshal into a RawMessage is skipWhiteSpace, skipValue and the
// end-of-input check, and hands the skipped bytes to the destination
func c05SkipObs(b []byte) []byte {
	var raw gojson.RawMessage
	if err := safeCall(func() error { return gojson.Unmarshal(b, &raw) }); err != nil {
		if strings.HasPrefix(err.Error(), "PANIC") {
			return []byte("panic")
		}
		return []byte("R")
	}
	return []byte("A" + strconv.Itoa(len(raw)))
}

func c05Text(o *Out, b []byte, typed bool) {
	if len(b) <= 4 || o.Stats["verdict_cases"]%7 == 0 || typed {
		o.emit("A", "c05.skip", [][]byte{b}, c05SkipObs(b), nil, false)
	}
	got := c05Obs(b)
	want := c05Oracle(b)
	o.count("verdict_cases", 1)
	if len(b) <= 4 || o.Stats["verdict_cases"]%13 == 0 || typed {
		flag := []byte("1")
		if !numbersInRange(b) {
			flag = []byte("0")
		}
		o.emit("A", "c05.iface", [][]byte{flag, b}, got[1:2], want[1:2], true)
	}
	c05Judge(o, b, got, want)
	if typed {
		c05Typed(o, b)
		// (audit A1) more destinations and entry points: on every short text, on a sample of the others
		n := o.Stats["x_typed_inputs"]
		o.count("x_typed_inputs", 1)
		if len(b) <= 3 || n%6 == 0 {
			c05Plain(o, b, len(b) <= 2 || n%24 == 0 || o.tier == "thorough")
		}
		if len(b) <= 3 || n%3 == 0 {
			c05Variants(o, b)
		}
	}
}

// c05Judge compares the four verdicts with the oracle's; a difference is the recorded
// finding StreamLeadingSeparator or goes to bin/check as a disagreement
func c05Judge(o *Out, b []byte, got, want []byte) {
	if !bytes.Equal(got, want) {
		// frozen class of a recorded finding: the stream decoder (Decoder.Decode,
		// and Valid which is built on it) skips ONE leading ',' or ':' before a value
		t := bytes.TrimLeft(b, " \t\r\n")
		if len(t) > 0 && (t[0] == ',' || t[0] == ':') && got[1] == want[1] {
			rest := t[1:]
			w2 := c05Oracle(rest)
			g2 := c05Obs(rest)
			if bytes.Equal(g2, w2) && got[0] == g2[0] && got[2] == g2[2] && got[3] == g2[3] {
				o.known("StreamLeadingSeparator", fmt.Sprintf("%q", b))
				o.hist("verdict_known", string(got)+" vs "+string(want))
				return
			}
		}
		o.emit("C", "c05.verdicts", [][]byte{b}, got, want, true)
		o.hist("verdict_mismatch", string(got)+" vs "+string(want))
	}
}

func runC05(o *Out) {
	thorough := o.tier == "thorough"
	if os.Getenv("AUDIT_ONLY") == "extra" { // for working on the added strata alone
		c05Extra(o)
		return
	}
	for _, d := range corpusDocs {
		c05Text(o, []byte(d), true)
	}
	byteSweep(func(b []byte) { c05Text(o, b, true) })
	maxLen := 4
	if thorough {
		maxLen = 5
	}
	n := 0
	enumStrings(alphabet27, maxLen, func(b []byte) {
		n++
		c05Text(o, append([]byte{}, b...), len(b) <= 3 || n%17 == 0)
	})
	ndocs := 1500
	if thorough {
		ndocs = 20000
	}
	for i := 0; i < ndocs; i++ {
		d := genDoc(o.rng, 3)
		c05Text(o, []byte(d), true)
		// wrap so that the generated text lands in a skipped / delegated position
		for _, w := range []string{`{"x":%s,"A":1}`, `{"A":1,"x":%s}`, `[%s,2]`, `{"k":{"x":%s}}`} {
			c05Text(o, []byte(fmt.Sprintf(w, d)), true)
		}
		if i%4 == 0 {
			k := 0
			mutations(d, alphabet27, 5, func(m string) {
				k++
				c05Text(o, []byte(m), k%3 == 0)
				if k%6 == 0 {
					c05Text(o, []byte(`{"x":`+m+`,"A":1}`), true)
				}
			})
		}
	}
	// the strata of audit A1 (last, so that the texts drawn above are the ones drawn before the audit)
	c05Extra(o)
}

// ===========================================================================
// Audit A1: destinations, entry points and input lengths that the generators
// above do not reach.  Counters and histograms start with x_.
// ===========================================================================

// --- destinations without a struct and without anything to skip: "no destination type
// makes decoding succeed on a byte string outside the language" also for the scalar
// decoders (each has its own scanner for numbers, literals and strings, in two copies:
// buffer and stream), pointers, slices, maps (string, integer and TextUnmarshaler keys)
// and interface{} behind them.  None of the recorded findings but the stream decoder's
// leading separator can explain an acceptance here.

type c05KeyText string

func (k *c05KeyText) UnmarshalText(b []byte) error { *k = c05KeyText(b); return nil }

type c05Str struct {
	I int     `json:"A,string"`
	F float64 `json:"x,string"`
	B bool    `json:"k,string"`
	S string  `json:"abc,string"`
}

var c05PlainDests = []c05Dest{
	{"float64", func() interface{} { var v float64; return &v }},
	{"float32", func() interface{} { var v float32; return &v }},
	{"int", func() interface{} { var v int; return &v }},
	{"int8", func() interface{} { var v int8; return &v }},
	{"uint", func() interface{} { var v uint; return &v }},
	{"uint64", func() interface{} { var v uint64; return &v }},
	{"string", func() interface{} { var v string; return &v }},
	{"named-string", func() interface{} { var v TgNamedStr; return &v }},
	{"bool", func() interface{} { var v bool; return &v }},
	{"Number", func() interface{} { var v stdjson.Number; return &v }},
	{"bytes", func() interface{} { var v []byte; return &v }},
	{"*int", func() interface{} { var v *int; return &v }},
	{"**string", func() interface{} { var v **string; return &v }},
	{"*bool", func() interface{} { var v *bool; return &v }},
	{"[]interface{}", func() interface{} { var v []interface{}; return &v }},
	{"[]int", func() interface{} { var v []int; return &v }},
	{"[]string", func() interface{} { var v []string; return &v }},
	{"[]*float64", func() interface{} { var v []*float64; return &v }},
	{"[]Number", func() interface{} { var v []stdjson.Number; return &v }},
	{"[][]bool", func() interface{} { var v [][]bool; return &v }},
	{"map[string]interface{}", func() interface{} { var v map[string]interface{}; return &v }},
	{"map[string]int", func() interface{} { var v map[string]int; return &v }},
	{"map[int]string", func() interface{} { var v map[int]string; return &v }},
	{"map[uint8]*int", func() interface{} { var v map[uint8]*int; return &v }},
	{"map[TextUnmarshaler]float64", func() interface{} { var v map[c05KeyText]float64; return &v }},
	{"map[string]map[string][]bool", func() interface{} { var v map[string]map[string][]bool; return &v }},
	{"populated interface{}(*[]int)", func() interface{} { var i interface{} = &[]int{1}; return &i }},
	{"populated interface{}(*map[string]string)", func() interface{} { var i interface{} = &map[string]string{"a": "b"}; return &i }},
}

// fields with the ,string option: a second grammar inside a string literal.  A struct,
// hence checked in buffer mode with the struct destinations' classifier (shape below).
var c05StringTagDest = c05Dest{"string-tag", func() interface{} { return &c05Str{} }}

func c05ModeVerdict(b []byte, mk func() interface{}, mode int) byte {
	switch mode {
	case 0:
		return verdict(func() error { return gojson.Unmarshal(b, mk()) })
	case 1:
		return verdict(func() error { return streamDecode(b, mk(), false) })
	case 2:
		return verdict(func() error { return streamDecode(b, mk(), true) })
	}
	return verdict(func() error { return c05StreamPieces(b, mk(), mode, false) })
}

// Decoder.Decode from a reader that delivers pieces of the given size; the whole input must be one text
func c05StreamPieces(b []byte, v interface{}, size int, useNumber bool) error {
	d := gojson.NewDecoder(&pieceReader{b: b, size: size, failAt: -1})
	if useNumber {
		d.UseNumber()
	}
	if err := d.Decode(v); err != nil {
		return err
	}
	var rest interface{}
	if err := d.Decode(&rest); err != io.EOF {
		return fmt.Errorf("trailing data")
	}
	return nil
}

// the one recorded finding that does not depend on the destination: in stream mode one
// leading ',' or ':' is skipped (the predicate of classifyC05's first clause)
func c05LeadingSeparator(b []byte, mode int) bool {
	if mode == 0 {
		return false
	}
	t := bytes.TrimLeft(b, " \t\r\n")
	return len(t) > 0 && (t[0] == ',' || t[0] == ':') && stdjson.Valid(t[1:])
}

// the destinations every sampled text meets; the others meet the shortest texts and a sample (all of them in thorough)
var c05PlainCore = map[string]bool{"float64": true, "int": true, "uint64": true, "string": true, "bool": true, "Number": true, "bytes": true, "*int": true,
	"[]interface{}": true, "map[string]interface{}": true, "map[int]string": true, "[]string": true}

func c05Plain(o *Out, b []byte, full bool) {
	valid := stdjson.Valid(b)
	if valid {
		// a valid text tells nothing here: whether a destination takes it is C02's question
		o.count("x_plain_inputs_valid_not_run", 1)
		return
	}
	o.count("x_plain_inputs", 1)
	for _, d := range c05PlainDests {
		if !full && !c05PlainCore[d.name] {
			continue
		}
		for mode := 0; mode < 3; mode++ {
			v := c05ModeVerdict(b, d.mk, mode)
			o.count("x_plain_cases", 1)
			if v == 'P' {
				o.violation("C05", "panic while decoding", map[string]string{"dest": d.name, "mode": fmt.Sprint(mode), "input": fmt.Sprintf("%q", b)})
			}
			if v == 'A' {
				if c05LeadingSeparator(b, mode) {
					o.known("StreamLeadingSeparator", fmt.Sprintf("%s mode=%d %q", d.name, mode, b))
					continue
				}
				o.hist("x_plain_accepts_invalid", d.name)
				o.violation("C05", "typed destination accepted a text outside the RFC 8259 language",
					map[string]string{"dest": d.name, "mode": fmt.Sprint(mode), "input": fmt.Sprintf("%q", b)})
			}
		}
	}
	// ,string fields: buffer mode, no backslash and no control byte in the text (so
	// that the recorded leniency of the struct key scanners, StructKeyUnvalidated, is out of
	// the picture: the keys are then scanned to the next quote by every scanner)
	if bytes.IndexByte(b, '\\') < 0 && !c05HasControl(b) {
		d := c05StringTagDest
		o.count("x_plain_cases", 1)
		switch c05ModeVerdict(b, d.mk, 0) {
		case 'P':
			o.violation("C05", "panic while decoding", map[string]string{"dest": d.name, "mode": "0", "input": fmt.Sprintf("%q", b)})
		case 'A':
			o.violation("C05", "typed destination accepted a text outside the RFC 8259 language",
				map[string]string{"dest": d.name, "mode": "0", "input": fmt.Sprintf("%q", b)})
		}
	}
}

// any byte below 0x20: after a damaged quote the white space between tokens can lie inside a key
func c05HasControl(b []byte) bool {
	for _, c := range b {
		if c < 0x20 {
			return true
		}
	}
	return false
}

// --- the other entry points that decode into interface{}: the same language.  With
// UseNumber the range of float64 plays no part (as for Valid).
func c05Variants(o *Out, b []byte) {
	var x interface{}
	want := byte('R')
	if stdjson.Unmarshal(b, &x) == nil {
		want = 'A'
	}
	wantNum := byte('R')
	if stdjson.Valid(b) {
		wantNum = 'A'
	}
	type variant struct {
		name   string
		stream bool
		want   byte
		run    func() error
	}
	vs := []variant{
		{"UnmarshalNoEscape", false, want, func() error { var v interface{}; return gojson.UnmarshalNoEscape(b, &v) }},
		{"UnmarshalContext", false, want, func() error { var v interface{}; return gojson.UnmarshalContext(context.Background(), b, &v) }},
		{"UnmarshalWithOption(FirstWin)", false, want, func() error {
			var v interface{}
			return gojson.UnmarshalWithOption(b, &v, gojson.DecodeFieldPriorityFirstWin())
		}},
		{"Decoder.UseNumber", true, wantNum, func() error { var v interface{}; return c05StreamPieces(b, &v, 4096, true) }},
		{"Decoder.UseNumber(3 bytes)", true, wantNum, func() error { var v interface{}; return c05StreamPieces(b, &v, 3, true) }},
		{"Decoder(2 bytes)", true, want, func() error { var v interface{}; return c05StreamPieces(b, &v, 2, false) }},
		{"DecodeContext", true, want, func() error {
			d := gojson.NewDecoder(bytes.NewReader(b))
			var v, rest interface{}
			if err := d.DecodeContext(context.Background(), &v); err != nil {
				return err
			}
			if err := d.DecodeContext(context.Background(), &rest); err != io.EOF {
				return fmt.Errorf("trailing data")
			}
			return nil
		}},
	}
	for _, v := range vs {
		got := verdict(v.run)
		o.count("x_variant_cases", 1)
		if got == v.want {
			continue
		}
		if got == 'A' && v.stream && c05LeadingSeparator(b, 1) {
			o.known("StreamLeadingSeparator", fmt.Sprintf("%s %q", v.name, b))
			continue
		}
		o.hist("x_variant_mismatch", v.name+" "+string(got)+" vs "+string(v.want))
		o.violation("C05", "an entry point decoding into interface{} disagrees with the RFC 8259 language",
			map[string]string{"entry": v.name, "got": string(got), "want": string(v.want), "input": fmt.Sprintf("%q", b)})
	}
}

// --- inputs longer than the stream decoder's window.  Decoder.Decode, and Valid which is
// built on it, read through a window of 512 bytes that is doubled when a token does not
// fit; every text above is shorter than that, so no refill ever happens in the middle of
// a text when the reader delivers what is asked for, and the window never grows.  Here every
// byte of a short text (valid or not) is laid on the last and the first position of the
// first and the second window, behind white space, inside an array, inside a string
// member, and inside a member that typed destinations skip.

var c05Edges = []int{511, 1023}

type c05Pad struct {
	name string
	pre  func(n int) string // a prefix of exactly n bytes (n >= 8)
	post string
}

var c05Pads = []c05Pad{
	{"white space", func(n int) string { return strings.Repeat(" ", n) }, ""},
	{"array", func(n int) string { return "[" + strings.Repeat(" ", (n-1)%2) + strings.Repeat("0,", (n-1)/2) }, "]"},
	{"string member", func(n int) string { return `{"p":"` + strings.Repeat("p", n-12) + `","x":` }, `,"A":1}`},
	{"nested", func(n int) string { return strings.Repeat("[", n/2) + strings.Repeat(" ", n%2) }, ""}, // closed below
}

func c05Padded(p c05Pad, n int, text []byte) []byte {
	b := append([]byte(p.pre(n)), text...)
	b = append(b, p.post...)
	if p.name == "nested" {
		b = append(b, strings.Repeat("]", n/2)...)
	}
	return b
}

func c05WindowOne(o *Out, b []byte, typed bool) {
	got := c05Obs(b)
	want := c05Oracle(b)
	o.count("x_window_verdict_cases", 1)
	c05Judge(o, b, got, want)
	// readers that cut elsewhere: just before, at and just behind the window's edge
	for _, size := range []int{7, 510, 511, 512} {
		var v interface{}
		g := verdict(func() error { return c05StreamPieces(b, &v, size, false) })
		o.count("x_window_verdict_cases", 1)
		if g != want[1] {
			if g == 'A' && c05LeadingSeparator(b, 1) {
				o.known("StreamLeadingSeparator", fmt.Sprintf("%q", b))
				continue
			}
			o.hist("x_window_mismatch", fmt.Sprintf("pieces of %d: %c vs %c", size, g, want[1]))
			o.violation("C05", "Decoder.Decode into interface{} disagrees with the RFC 8259 language on a text longer than the window",
				map[string]string{"pieces": fmt.Sprint(size), "got": string(g), "want": string(want[1]), "len": fmt.Sprint(len(b)), "input": fmt.Sprintf("%q", b)})
		}
	}
	if typed {
		c05Typed(o, b)
		c05Plain(o, b, false)
	}
}

func c05Window(o *Out) {
	thorough := o.tier == "thorough"
	var texts [][]byte
	for _, d := range corpusDocs {
		texts = append(texts, []byte(d))
	}
	maxLen, every := 2, 9
	if thorough {
		maxLen, every = 3, 6
	}
	ne := 0
	enumStrings(alphabet27, maxLen, func(b []byte) {
		ne++
		if len(b) == 1 || len(b) > 1 && ne%every == 0 {
			texts = append(texts, append([]byte{}, b...))
		}
	})
	for _, s := range []string{`"é"`, `"😀"`, `"\ud83d"`, `"\ud83dé"`, `"\uZZZZ"`, `"\u12"`, "\"\xc3\xa9\"", "\"\xe2\x82\xac\"", "\"\xf0\x9f\x98\x80\"", "\"\xe2\x82\"", "\"\xef\xbf\xbd\"", "\"\xef\xbf\"",
		`-1.5e+10`, `-1.5e+`, `0.0001`, `00.1`, `1.e1`, `true`, `false`, `null`, `trux`, `falsx`, `nulx`, `[true,false,null]`, `{"A":1,"x":[1,{"y":"z"}]}`, `{"A":1 ,"x": "\n" }`,
		"\"a\x00b\"", "1\x002", "[1\x00]", "\x00", "nu\x00ll", "\"\\\x00\"", `"\"`, `"\\"`, `"\\\"`} {
		texts = append(texts, []byte(s))
	}
	ngen := 8
	if thorough {
		ngen = 200
	}
	for i := 0; i < ngen; i++ {
		d := genDoc(o.rng, 2)
		texts = append(texts, []byte(d))
		k := 0
		mutations(d, alphabet27, 13, func(m string) {
			k++
			if k%5 == 0 {
				texts = append(texts, []byte(m))
			}
		})
	}
	o.count("x_window_texts", int64(len(texts)))
	// strings with ill-formed UTF-8 are in the language (encoding/json.Valid takes them), and the
	// stream decoder widens its window by two bytes for each such byte.  With more than 256 of
	// them in the first window and a text of more than 511 bytes Valid and Decoder.Decode panic
	// today (see the notes, StreamWindowGrowthOverrun): run with AUDIT_OPEN=1 only.
	for _, k := range []int{2, 16, 250, 258, 300, 600} { // ill-formed bytes
		if k > 250 && false {
			o.count("x_window_held_back_AUDIT_OPEN", 2)
			continue
		}
		for _, unit := range []string{"\xff", "\xe2\x82"} {
			b := []byte(`"` + strings.Repeat(unit, k/len(unit)) + strings.Repeat("a", 700) + `"`)
			o.hist("x_window_pad", "ill-formed UTF-8 run")
			c05WindowOne(o, b, false)
			c05WindowOne(o, append([]byte(`{"x":`), append(b, `,"A":1}`...)...), true)
		}
	}
	n := 0
	for ti, t := range texts {
		for _, edge := range c05Edges {
			// which byte of the text lies on the last position of the window
			var offs []int
			if len(t) <= 4 || thorough && len(t) <= 8 {
				for j := -1; j <= len(t); j++ {
					offs = append(offs, j)
				}
			} else {
				offs = []int{0, len(t) - 1, (ti*7 + edge) % len(t)}
			}
			for _, j := range offs {
				start := edge - 1 - j // the text starts here: its byte j is the last byte of the window
				if start < 16 {
					continue
				}
				p := c05Pads[n%len(c05Pads)]
				n++
				b := c05Padded(p, start, t)
				o.hist("x_window_pad", p.name)
				o.hist("x_window_edge", fmt.Sprint(edge))
				c05WindowOne(o, b, n%8 == 0 || p.name == "string member" && n%2 == 0)
			}
		}
	}
}

// --- destination types of the C02 grammar (buffer mode): a document for the type, with every
// kind of single-byte damage; whatever the type, a text outside the language must be refused.
// The recorded findings of the typed destinations are out of the picture by construction:
// stream mode is not used (SkipUnvalidated, StreamSkipScannerLenient, StreamStructKeyLenient,
// StreamLeadingSeparator are stream-only), and for a type with a struct in it texts with a
// backslash or a byte below 0x20 are left out (StructKeyUnvalidated needs one of them
// inside a key, and a damaged quote can move any part of the text into a key).

func c05HasStruct(t reflect.Type, depth int) bool {
	if depth > 8 {
		return true
	}
	switch t.Kind() {
	case reflect.Struct:
		return true
	case reflect.Ptr, reflect.Slice, reflect.Array:
		return c05HasStruct(t.Elem(), depth+1)
	case reflect.Map:
		return c05HasStruct(t.Key(), depth+1) || c05HasStruct(t.Elem(), depth+1)
	}
	return false
}

func c05Grammar(o *Out) {
	r := o.rng
	ntypes := 450
	if o.tier == "thorough" {
		ntypes = 15000
	}
	for i := 0; i < ntypes; i++ {
		var t reflect.Type
		if i%2 == 0 {
			t = c02Type(r, 3)
		} else {
			t = c02Struct(r, 2)
		}
		hasStruct := c05HasStruct(t, 0)
		o.hist("x_grammar_types", fmt.Sprintf("%s struct-inside=%v", t.Kind(), hasStruct))
		for j := 0; j < 2; j++ {
			doc := c02Doc(r, t, 0, false)
			for try := 0; try < 8 && hasStruct && (strings.IndexByte(doc, '\\') >= 0 || c05HasControl([]byte(doc))); try++ {
				doc = c02Doc(r, t, 0, false) // one whose damaged forms can be judged
			}
			if len(doc) > 400 {
				continue
			}
			k := 0
			try := func(m string) {
				b := []byte(m)
				if stdjson.Valid(b) {
					return
				}
				if hasStruct && (strings.IndexByte(m, '\\') >= 0 || c05HasControl(b)) {
					o.count("x_grammar_left_to_StructKeyUnvalidated", 1)
					return
				}
				o.count("x_grammar_cases", 1)
				v := verdict(func() error { return gojson.Unmarshal(b, reflect.New(t).Interface()) })
				if v == 'P' {
					o.violation("C05", "panic while decoding", map[string]string{"type": clipN(t.String(), 600), "input": fmt.Sprintf("%q", b)})
				}
				if v == 'A' {
					o.violation("C05", "typed destination accepted a text outside the RFC 8259 language",
						map[string]string{"type": clipN(t.String(), 600), "mode": "0", "input": fmt.Sprintf("%q", b), "from": doc})
				}
			}
			mutations(doc, alphabet27, 3, func(m string) {
				k++
				try(m)
			})
			// two damages at once, and a cut
			for c := 0; c < 8 && len(doc) > 2; c++ {
				m := []byte(doc)
				m[r.Intn(len(m))] = alphabet27[r.Intn(len(alphabet27))]
				m[r.Intn(len(m))] = alphabet27[r.Intn(len(alphabet27))]
				try(string(m))
				try(doc[:r.Intn(len(doc))])
			}
		}
	}
}

// --- damage by whole tokens.  A single byte cannot turn the key "a" into null, a number or
// an array, nor drop a colon together with its value: {null:1} (accepted by one of the three
// struct key matchers until fd8caea) is eight single-byte steps from the nearest valid text.
// Every token of a generated text is deleted, doubled, swapped with its neighbour and
// replaced by every kind of token; and every kind of token is put where a key must stand.

func c05Tokens(doc string) []string {
	var toks []string
	for i := 0; i < len(doc); {
		c := doc[i]
		switch {
		case c == ' ' || c == '\t' || c == '\n' || c == '\r':
			j := i
			for j < len(doc) && (doc[j] == ' ' || doc[j] == '\t' || doc[j] == '\n' || doc[j] == '\r') {
				j++
			}
			toks = append(toks, doc[i:j])
			i = j
		case c == '"':
			j := i + 1
			for j < len(doc) && doc[j] != '"' {
				if doc[j] == '\\' {
					j++
				}
				j++
			}
			if j < len(doc) {
				j++
			}
			if j > len(doc) {
				j = len(doc)
			}
			toks = append(toks, doc[i:j])
			i = j
		case c == '{' || c == '}' || c == '[' || c == ']' || c == ',' || c == ':':
			toks = append(toks, doc[i:i+1])
			i++
		default:
			j := i
			for j < len(doc) && strings.IndexByte("{}[],:\" \t\n\r", doc[j]) < 0 {
				j++
			}
			toks = append(toks, doc[i:j])
			i = j
		}
	}
	return toks
}

var c05TokenKinds = []string{"null", "true", "false", "0", "-1.5e2", `"s"`, `""`, "[", "]", "{", "}", ",", ":", "[]", "{}", `{"A":1}`, "[1]", " ", "", "nul", "-", `"`, "\x00"}

func c05TokenDamage(o *Out) {
	r := o.rng
	ndocs := 40
	if o.tier == "thorough" {
		ndocs = 400
	}
	n := 0
	run := func(m string) {
		n++
		o.count("x_token_texts", 1)
		c05Text(o, []byte(m), n%3 == 0)
	}
	for i := 0; i < ndocs; i++ {
		d := genDoc(r, 3)
		if i%2 == 0 {
			d = strings.Replace([]string{`{"x":%s,"A":1}`, `{"A":1,"k":{"x":%s}}`, `[%s,{"A":2,"abc":[%s]}]`}[i/2%3], "%s", d, -1)
		}
		toks := c05Tokens(d)
		if len(toks) > 60 {
			continue
		}
		join := func(t []string) string { return strings.Join(t, "") }
		for k := range toks {
			if strings.TrimSpace(toks[k]) == "" {
				continue
			}
			cp := func() []string { return append([]string{}, toks...) }
			t := cp()
			run(join(append(t[:k], t[k+1:]...))) // deleted
			t = cp()
			t[k] = t[k] + t[k]
			run(join(t)) // doubled
			if k+1 < len(toks) {
				t = cp()
				t[k], t[k+1] = t[k+1], t[k]
				run(join(t)) // swapped
			}
			for _, rep := range c05TokenKinds {
				if (k*7+len(rep)+i)%3 != 0 && o.tier != "thorough" {
					continue
				}
				t = cp()
				t[k] = rep
				run(join(t))
			}
		}
	}
	// every kind of token where a key must stand
	ctxs := []string{`{%s:1}`, `{%s}`, `{"A":1,%s:2}`, `{%s:1,"A":2}`, `[{%s:[]}]`, `{"x":{%s:1},"A":1}`, `{"k":{%s:{}}}`, `{ %s : 1 }`, `{"A":1,%s}`, `{%s:1,%s:2}`}
	for _, c := range ctxs {
		for _, tk := range append(append([]string{}, c05TokenKinds...), "1", "tru", "n", "a", "'a'", `"A"`, `"a" "b"`, `"\u0041"`, `"A":1,"A"`) {
			m := strings.Replace(c, "%s", tk, -1)
			o.count("x_token_key_position_texts", 1)
			c05Text(o, []byte(m), true)
		}
	}
}

func c05Extra(o *Out) {
	for _, s := range []struct {
		name string
		run  func(*Out)
	}{
		{"token (damage by whole tokens; every kind of token in key position)", c05TokenDamage},
		{"window (every byte of a short text on the edge of the stream window)", c05Window},
		{"grammar (C02 type grammar x damaged documents for the type, buffer mode)", c05Grammar},
	} {
		t0 := time.Now()
		v0 := o.Stats["harness_violations"]
		s.run(o)
		o.Notes = append(o.Notes, fmt.Sprintf("audit stratum %s: %.1fs, %d violations", s.name, time.Since(t0).Seconds(), o.Stats["harness_violations"]-v0))
	}
}
