package main

import (
	"bytes"
	stdjson "encoding/json"
	"fmt"
	"reflect"
	"sort"
	"strings"
	"unicode/utf8"

	gojson "github.com/goccy/go-json"
)

func init() { props["C15"] = runC15 }

// names over a small alphabet with upper/lower pairs, a digit, underscore,
// a multi-byte letter and an HTML-special character
var c15NameAlphabet = []string{"a", "A", "b", "B", "1", "_", "é", "<"}

func c15Names(maxLen int) []string {
	var out []string
	var rec func(p string, n int)
	rec = func(p string, n int) {
		if p != "" {
			out = append(out, p)
		}
		if n == maxLen {
			return
		}
		for _, c := range c15NameAlphabet {
			rec(p+c, n+1)
		}
	}
	rec("", 0)
	return out
}

// struct type with one int field per JSON name
func c15Type(names []string) reflect.Type {
	fields := make([]reflect.StructField, len(names))
	for i, n := range names {
		fields[i] = reflect.StructField{
			Name: fmt.Sprintf("F%d", i),
			Type: reflect.TypeOf(0),
			Tag:  reflect.StructTag(fmt.Sprintf(`json:%q`, n)),
		}
	}
	return reflect.StructOf(fields)
}

// which field (index) holds 7 after decoding {"key":7}; -1 none; -2 error; -3 panic
func c15Which(t reflect.Type, doc []byte, mode int) int {
	v := reflect.New(t)
	var err error
	switch mode {
	case 0:
		err = safeUnmarshal(gojson.Unmarshal, doc, v.Interface())
	case 1:
		err = safeCall(func() error { return streamDecode(doc, v.Interface(), false) })
	case 2:
		err = safeCall(func() error { return streamDecode(doc, v.Interface(), true) })
	default:
		err = stdjson.Unmarshal(doc, v.Interface())
	}
	if err != nil {
		if strings.HasPrefix(err.Error(), "PANIC") {
			return -3
		}
		return -2
	}
	for i := 0; i < t.NumField(); i++ {
		if v.Elem().Field(i).Int() == 7 {
			return i
		}
	}
	return -1
}

func escapeAll(s string) string {
	var sb strings.Builder
	for _, r := range s {
		if r > 0xffff {
			r1, r2 := (r-0x10000)>>10+0xd800, (r-0x10000)&0x3ff+0xdc00
			fmt.Fprintf(&sb, `\u%04x\u%04x`, r1, r2)
		} else {
			fmt.Fprintf(&sb, `\u%04x`, r)
		}
	}
	return sb.String()
}

func escapeFirst(s string) string {
	r, n := utf8.DecodeRuneInString(s)
	if n == 0 {
		return s
	}
	return escapeAll(string(r)) + s[n:]
}

func isASCII(s string) bool {
	for i := 0; i < len(s); i++ {
		if s[i] >= 0x80 {
			return false
		}
	}
	return true
}

// frozen classes of recorded findings
func classifyC15(names []string, key string, got, want int) string {
	// encoding/json folds some non-ASCII letters (Kelvin sign, long s) and
	// non-ASCII upper case onto their lower-case forms; go-json folds ASCII only
	if !isASCII(key) && got == -1 && want >= 0 && strings.EqualFold(names[want], key) && names[want] != key {
		return "NonAsciiFold"
	}
	// several names equal under case folding: encoding/json takes the first
	// declared one, go-json the one its lower-cased map happens to hold
	if got >= 0 && want >= 0 && got != want && strings.EqualFold(names[got], names[want]) {
		return "FoldTieOrder"
	}
	return ""
}

func c15Check(o *Out, names []string, t reflect.Type, key, spelled string) {
	doc := []byte(`{"` + spelled + `":7}`)
	want := c15Which(t, doc, 9)
	for mode := 0; mode < 3; mode++ {
		got := c15Which(t, doc, mode)
		o.count("key_cases", 1)
		if got == -3 {
			o.violation("C15", "panic while matching a key", map[string]string{"names": strings.Join(names, ","), "doc": string(doc), "mode": fmt.Sprint(mode)})
			continue
		}
		if got != want {
			if cls := classifyC15(names, key, got, want); cls != "" {
				o.known(cls, fmt.Sprintf("names=%v doc=%s", names, doc))
				continue
			}
			o.violation("C15", "a key selected a different field than in encoding/json",
				map[string]string{"names": strings.Join(names, ","), "doc": string(doc), "mode": fmt.Sprint(mode), "got": fmt.Sprint(got), "want": fmt.Sprint(want)})
		}
	}
}

func runC15(o *Out) {
	thorough := o.tier == "thorough"
	pool := c15Names(2)
	if thorough {
		pool = c15Names(3)
	}
	keys := append([]string{}, c15Names(3)...)
	keys = append(keys, "K", "ſ", "É", "", "ab"+strings.Repeat("a", 70))
	// name sets: 1..17 names, many random subsets plus structured ones
	var sets [][]string
	for _, n := range pool[:len(c15NameAlphabet)] {
		sets = append(sets, []string{n})
	}
	sets = append(sets, []string{"a", "ab"}, []string{"ab", "a"}, []string{"a", "A"}, []string{"ab", "aB", "Ab"}, []string{"é", "É"},
		[]string{"k", "s"}, []string{strings.Repeat("a", 64), strings.Repeat("a", 65)}, []string{"ab", "abc", "abcd"}, []string{"a_", "a1", "a<"})
	nsets := 250
	if thorough {
		nsets = 2500
	}
	for i := 0; i < nsets; i++ {
		n := 1 + o.rng.Intn(17)
		seen := map[string]bool{}
		var s []string
		for len(s) < n {
			c := pool[o.rng.Intn(len(pool))]
			if !seen[c] {
				seen[c] = true
				s = append(s, c)
			}
		}
		sets = append(sets, s)
	}
	for si, names := range sets {
		t := c15Type(names)
		o.hist("fields", fmt.Sprint(len(names)))
		// decoding: every key in raw, partly and fully escaped spelling
		kk := keys
		if si%3 != 0 && !thorough {
			kk = keys[:len(keys)/4+8]
		}
		for _, k := range kk {
			c15Check(o, names, t, k, jsonKeyRaw(k))
			c15Check(o, names, t, k, escapeAll(k))
			c15Check(o, names, t, k, escapeFirst(k))
		}
		// correspondence with the Coq bitmap model: eligible name sets only
		if sorted, ok := c15Eligible(names); ok {
			for _, k := range kk {
				if k == "" || !isASCII(k) {
					continue
				}
				got := c15Which(t, []byte(`{"`+jsonKeyRaw(k)+`":7}`), 0)
				obs := "N"
				if got >= 0 {
					lk := strings.ToLower(names[got])
					for si, sn := range sorted {
						if sn == lk {
							obs = fmt.Sprintf("F%d", si)
						}
					}
				} else if got < -1 {
					obs = "E"
				}
				o.emit("A", "c15.bitmap", [][]byte{[]byte(strings.Join(sorted, "\n")), []byte(k)}, []byte(obs), nil, false)
			}
		}
		// encoding: member names and order
		v := reflect.New(t).Elem()
		for i := 0; i < t.NumField(); i++ {
			v.Field(i).SetInt(int64(i + 1))
		}
		g, gerr := gojson.Marshal(v.Interface())
		w, werr := stdjson.Marshal(v.Interface())
		o.count("encode_cases", 1)
		if (gerr != nil) != (werr != nil) || !bytes.Equal(g, w) {
			o.violation("C15", "Marshal member names/order differ from encoding/json", map[string]string{"names": strings.Join(names, ","), "got": string(g), "want": string(w)})
		}
	}
	c15Embedded(o)
	c15EmbeddedGenerated(o)
}

func jsonKeyRaw(k string) string {
	b, _ := stdjson.Marshal(k)
	s := string(b[1 : len(b)-1])
	// keep '<' raw: the key text must be what a user would write
	s = strings.ReplaceAll(s, `<`, "<")
	return s
}

// embedded structs with conflicts, to depth 3, compared with encoding/json in
// both directions (fixed shapes: reflect.StructOf cannot embed)
type c15E1 struct {
	A int
	B int `json:"b"`
}
type c15E2 struct {
	A int `json:"A"`
	C int
}
type c15E3 struct {
	c15E1
	D int
}
type c15Top1 struct {
	c15E1
	c15E2
	X int
}
type c15Top2 struct {
	c15E3
	*c15E2
	A int `json:"a"`
}
type c15Top3 struct {
	c15E1 `json:"e"`
	c15E3
	B int
}
type c15Top4 struct {
	*c15E3
	c15E2
	hidden int
	Skip   int `json:"-"`
	Dash   int `json:"-,"`
}

type c15Deep struct {
	ID    int
	Extra int
}
type c15Mid struct {
	c15Deep
	M int
}
type c15Top5 struct {
	ID int
	c15Mid
}
type c15Top6 struct {
	c15Mid
	Extra int `json:"Extra"`
}
type c15Deep2 struct {
	ID int `json:"ID"`
	Z  int
}
type c15Top7 struct {
	c15Mid
	c15Deep2
}
type c15Top8 struct {
	M int
	c15Mid
	c15Deep2
}

// a field named like an embedded sibling's type: the embedded struct gives its fields, not a member of that name
type C15SL struct{ A int }
type c15SR struct {
	C15SL int
	B     int
}
type c15Top9 struct {
	C15SL
	c15SR
}
type c15Top10 struct {
	*C15SL
	c15SR
	X int
}

func c15Embedded(o *Out) {
	mk := []func() interface{}{
		func() interface{} { return &c15Top9{} }, func() interface{} { return &c15Top10{C15SL: &C15SL{}} },
	}
	mk = append(mk, []func() interface{}{
		func() interface{} { return &c15Top5{} }, func() interface{} { return &c15Top6{} },
		func() interface{} { return &c15Top7{} }, func() interface{} { return &c15Top8{} },
		func() interface{} { return &c15Top1{} }, func() interface{} { return &c15Top2{} },
		func() interface{} { return &c15Top3{} }, func() interface{} { return &c15Top4{} },
	}...)
	keys := []string{"C15SL", "A", "a", "B", "b", "C", "c", "D", "d", "X", "x", "e", "E", "Skip", "-", "hidden", "c15E1", "F", "ID", "id", "Extra", "M", "Z"}
	for ti, m := range mk {
		for _, k := range keys {
			for _, doc := range []string{`{"` + k + `":7}`, `{"` + k + `":7,"` + strings.ToLower(k) + `":8}`, `{"` + strings.ToUpper(k) + `":8,"` + k + `":7}`} {
				g, w := m(), m()
				gerr := safeUnmarshal(gojson.Unmarshal, []byte(doc), g)
				werr := stdjson.Unmarshal([]byte(doc), w)
				gs, _ := stdjson.Marshal(g)
				ws, _ := stdjson.Marshal(w)
				o.count("embedded_cases", 1)
				if (gerr != nil) != (werr != nil) || (gerr == nil && !bytes.Equal(gs, ws)) {
					o.violation("C15", "embedded-field resolution differs from encoding/json (decode)", map[string]string{"type": fmt.Sprint(ti), "doc": doc, "got": string(gs), "want": string(ws), "gerr": fmt.Sprint(gerr), "werr": fmt.Sprint(werr)})
				}
			}
		}
		v := m()
		rv := reflect.ValueOf(v).Elem()
		fillInts(rv, 1)
		g, gerr := gojson.Marshal(v)
		w, werr := stdjson.Marshal(v)
		if (gerr != nil) != (werr != nil) || !bytes.Equal(g, w) {
			o.violation("C15", "embedded-field resolution differs from encoding/json (encode)", map[string]string{"type": fmt.Sprint(ti), "got": string(g), "want": string(w)})
		}
	}
	_ = sort.Strings
}

func fillInts(v reflect.Value, n int) int {
	switch v.Kind() {
	case reflect.Int:
		if v.CanSet() {
			v.SetInt(int64(n))
			n++
		}
	case reflect.Struct:
		for i := 0; i < v.NumField(); i++ {
			n = fillInts(v.Field(i), n)
		}
	case reflect.Ptr:
		if v.CanSet() {
			v.Set(reflect.New(v.Type().Elem()))
			n = fillInts(v.Elem(), n)
		}
	}
	return n
}

// tryOptimize's eligibility: <= 16 names, each <= 64 bytes, ASCII only (so that
// strings.ToLower == toASCIILower), no two names equal after lower-casing
func c15Eligible(names []string) ([]string, bool) {
	if len(names) > 16 {
		return nil, false
	}
	seen := map[string]bool{}
	var out []string
	for _, n := range names {
		if !isASCII(n) || len(n) > 64 {
			return nil, false
		}
		l := strings.ToLower(n)
		if seen[l] {
			return nil, false
		}
		seen[l] = true
		out = append(out, l)
	}
	sort.Strings(out)
	return out, true
}
