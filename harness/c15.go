package main

import (
	"bytes"
	stdjson "encoding/json"
	"fmt"
	"io"
	"math/rand"
	"reflect"
	"sort"
	"strconv"
	"strings"
	"testing/iotest"
	"unicode/utf8"

	gojson "github.com/goccy/go-json"
)

func init() { props["C15"] = runC15 }

// names over a small alphabet with upper/lower pairs, a digit, underscore,
// a multi-byte letter and an HTML-special character
var c15NameAlphabet = []string{"a", "A", "b", "B", "1", "_", "é", "<"}

func c15Names(maxLen int) []string {
	var out []string
	var rec func(p string, n int)
	rec = func(p string, n int) {
		if p != "" {
			out = append(out, p)
		}
		if n == maxLen {
			return
		}
		for _, c := range c15NameAlphabet {
			rec(p+c, n+1)
		}
	}
	rec("", 0)
	return out
}

// struct type with one int field per JSON name
func c15Type(names []string) reflect.Type {
	fields := make([]reflect.StructField, len(names))
	for i, n := range names {
		fields[i] = reflect.StructField{
			Name: fmt.Sprintf("F%d", i),
			Type: reflect.TypeOf(0),
			Tag:  reflect.StructTag(fmt.Sprintf(`json:%q`, n)),
		}
	}
	return reflect.StructOf(fields)
}

// which field (index) holds 7 after decoding {"key":7}; -1 none; -2 error; -3 panic
func c15Which(t reflect.Type, doc []byte, mode int) int {
	v := reflect.New(t)
	var err error
	switch mode {
	case 0:
		err = safeUnmarshal(gojson.Unmarshal, doc, v.Interface())
	case 1:
		err = safeCall(func() error { return streamDecode(doc, v.Interface(), false) })
	case 2:
		err = safeCall(func() error { return streamDecode(doc, v.Interface(), true) })
	default:
		err = stdjson.Unmarshal(doc, v.Interface())
	}
	if err != nil {
		if strings.HasPrefix(err.Error(), "PANIC") {
			return -3
		}
		return -2
	}
	for i := 0; i < t.NumField(); i++ {
		if v.Elem().Field(i).Int() == 7 {
			return i
		}
	}
	return -1
}

func escapeAll(s string) string {
	var sb strings.Builder
	for _, r := range s {
		if r > 0xffff {
			r1, r2 := (r-0x10000)>>10+0xd800, (r-0x10000)&0x3ff+0xdc00
			fmt.Fprintf(&sb, `\u%04x\u%04x`, r1, r2)
		} else {
			fmt.Fprintf(&sb, `\u%04x`, r)
		}
	}
	return sb.String()
}

func escapeFirst(s string) string {
	r, n := utf8.DecodeRuneInString(s)
	if n == 0 {
		return s
	}
	return escapeAll(string(r)) + s[n:]
}

func isASCII(s string) bool {
	for i := 0; i < len(s); i++ {
		if s[i] >= 0x80 {
			return false
		}
	}
	return true
}

// frozen classes of recorded findings
func classifyC15(names []string, key string, got, want int) string {
	// encoding/json folds some non-ASCII letters (Kelvin sign, long s) and
	// non-ASCII upper case onto their lower-case forms; go-json folds ASCII only
	if !isASCII(key) && got == -1 && want >= 0 && strings.EqualFold(names[want], key) && names[want] != key {
		return "NonAsciiFold"
	}
	// several names equal under case folding: encoding/json takes the first
	// declared one, go-json the one its lower-cased map happens to hold
	if got >= 0 && want >= 0 && got != want && strings.EqualFold(names[got], names[want]) {
		return "FoldTieOrder"
	}
	return ""
}

func c15Check(o *Out, names []string, t reflect.Type, key, spelled string) {
	doc := []byte(`{"` + spelled + `":7}`)
	want := c15Which(t, doc, 9)
	for mode := 0; mode < 3; mode++ {
		got := c15Which(t, doc, mode)
		o.count("key_cases", 1)
		if got == -3 {
			o.violation("C15", "panic while matching a key", map[string]string{"names": strings.Join(names, ","), "doc": string(doc), "mode": fmt.Sprint(mode)})
			continue
		}
		if got != want {
			if cls := classifyC15(names, key, got, want); cls != "" {
				o.known(cls, fmt.Sprintf("names=%v doc=%s", names, doc))
				continue
			}
			o.violation("C15", "a key selected a different field than in encoding/json",
				map[string]string{"names": strings.Join(names, ","), "doc": string(doc), "mode": fmt.Sprint(mode), "got": fmt.Sprint(got), "want": fmt.Sprint(want)})
		}
	}
}

func runC15(o *Out) {
	thorough := o.tier == "thorough"
	pool := c15Names(2)
	if thorough {
		pool = c15Names(3)
	}
	keys := append([]string{}, c15Names(3)...)
	keys = append(keys, "K", "ſ", "É", "", "ab"+strings.Repeat("a", 70))
	// name sets: 1..17 names, many random subsets plus structured ones
	var sets [][]string
	for _, n := range pool[:len(c15NameAlphabet)] {
		sets = append(sets, []string{n})
	}
	sets = append(sets, []string{"a", "ab"}, []string{"ab", "a"}, []string{"a", "A"}, []string{"ab", "aB", "Ab"}, []string{"é", "É"},
		[]string{"k", "s"}, []string{strings.Repeat("a", 64), strings.Repeat("a", 65)}, []string{"ab", "abc", "abcd"}, []string{"a_", "a1", "a<"})
	nsets := 250
	if thorough {
		nsets = 2500
	}
	for i := 0; i < nsets; i++ {
		n := 1 + o.rng.Intn(17)
		seen := map[string]bool{}
		var s []string
		for len(s) < n {
			c := pool[o.rng.Intn(len(pool))]
			if !seen[c] {
				seen[c] = true
				s = append(s, c)
			}
		}
		sets = append(sets, s)
	}
	for si, names := range sets {
		t := c15Type(names)
		o.hist("fields", fmt.Sprint(len(names)))
		// decoding: every key in raw, partly and fully escaped spelling
		kk := keys
		if si%3 != 0 && !thorough {
			kk = keys[:len(keys)/4+8]
		}
		for _, k := range kk {
			// c15CheckX: c15Check plus the exact-match rule, which needs no classifier (generator audit)
			c15CheckX(o, names, t, k, jsonKeyRaw(k))
			c15CheckX(o, names, t, k, escapeAll(k))
			c15CheckX(o, names, t, k, escapeFirst(k))
		}
		// correspondence with the Coq bitmap model: eligible name sets only
		if sorted, ok := c15Eligible(names); ok {
			for _, k := range kk {
				if k == "" || !isASCII(k) {
					continue
				}
				got := c15Which(t, []byte(`{"`+jsonKeyRaw(k)+`":7}`), 0)
				obs := "N"
				if got >= 0 {
					lk := strings.ToLower(names[got])
					for si, sn := range sorted {
						if sn == lk {
							obs = fmt.Sprintf("F%d", si)
						}
					}
				} else if got < -1 {
					obs = "E"
				}
				o.emit("A", "c15.bitmap", [][]byte{[]byte(strings.Join(sorted, "\n")), []byte(k)}, []byte(obs), nil, false)
			}
		}
		// encoding: member names and order
		v := reflect.New(t).Elem()
		for i := 0; i < t.NumField(); i++ {
			v.Field(i).SetInt(int64(i + 1))
		}
		g, gerr := gojson.Marshal(v.Interface())
		w, werr := stdjson.Marshal(v.Interface())
		o.count("encode_cases", 1)
		if (gerr != nil) != (werr != nil) || !bytes.Equal(g, w) {
			o.violation("C15", "Marshal member names/order differ from encoding/json", map[string]string{"names": strings.Join(names, ","), "got": string(g), "want": string(w)})
		}
		c15EncodeAll(o, "names "+strings.Join(names, ","), v.Interface())
	}
	c15Embedded(o)
	c15EmbeddedGenerated(o)
	// strata added by the generator audit (below): they come last so that the cases above stay what they were
	c15LongNames(o)
	c15EscapeSpellings(o)
	c15MultiKey(o)
	c15BufferBoundary(o)
	c15TagChars(o)
	c15EmbeddedExtra(o)
	c15FirstWin(o)
}

func jsonKeyRaw(k string) string {
	b, _ := stdjson.Marshal(k)
	s := string(b[1 : len(b)-1])
	// keep '<' raw: the key text must be what a user would write
	s = strings.ReplaceAll(s, `<`, "<")
	return s
}

// embedded structs with conflicts, to depth 3, compared with encoding/json in
// both directions (fixed shapes: reflect.StructOf cannot embed)
type c15E1 struct {
	A int
	B int `json:"b"`
}
type c15E2 struct {
	A int `json:"A"`
	C int
}
type c15E3 struct {
	c15E1
	D int
}
type c15Top1 struct {
	c15E1
	c15E2
	X int
}
type c15Top2 struct {
	c15E3
	*c15E2
	A int `json:"a"`
}
type c15Top3 struct {
	c15E1 `json:"e"`
	c15E3
	B int
}
type c15Top4 struct {
	*c15E3
	c15E2
	hidden int
	Skip   int `json:"-"`
	Dash   int `json:"-,"`
}

type c15Deep struct {
	ID    int
	Extra int
}
type c15Mid struct {
	c15Deep
	M int
}
type c15Top5 struct {
	ID int
	c15Mid
}
type c15Top6 struct {
	c15Mid
	Extra int `json:"Extra"`
}
type c15Deep2 struct {
	ID int `json:"ID"`
	Z  int
}
type c15Top7 struct {
	c15Mid
	c15Deep2
}
type c15Top8 struct {
	M int
	c15Mid
	c15Deep2
}

// a field named like an embedded sibling's type: the embedded struct gives its fields, not a member of that name
type C15SL struct{ A int }
type c15SR struct {
	C15SL int
	B     int
}
type c15Top9 struct {
	C15SL
	c15SR
}
type c15Top10 struct {
	*C15SL
	c15SR
	X int
}

func c15Embedded(o *Out) {
	mk := []func() interface{}{
		func() interface{} { return &c15Top9{} }, func() interface{} { return &c15Top10{C15SL: &C15SL{}} },
	}
	mk = append(mk, []func() interface{}{
		func() interface{} { return &c15Top5{} }, func() interface{} { return &c15Top6{} },
		func() interface{} { return &c15Top7{} }, func() interface{} { return &c15Top8{} },
		func() interface{} { return &c15Top1{} }, func() interface{} { return &c15Top2{} },
		func() interface{} { return &c15Top3{} }, func() interface{} { return &c15Top4{} },
	}...)
	keys := []string{"C15SL", "A", "a", "B", "b", "C", "c", "D", "d", "X", "x", "e", "E", "Skip", "-", "hidden", "c15E1", "F", "ID", "id", "Extra", "M", "Z"}
	for ti, m := range mk {
		for _, k := range keys {
			for _, doc := range []string{`{"` + k + `":7}`, `{"` + k + `":7,"` + strings.ToLower(k) + `":8}`, `{"` + strings.ToUpper(k) + `":8,"` + k + `":7}`} {
				g, w := m(), m()
				gerr := safeUnmarshal(gojson.Unmarshal, []byte(doc), g)
				werr := stdjson.Unmarshal([]byte(doc), w)
				gs, _ := stdjson.Marshal(g)
				ws, _ := stdjson.Marshal(w)
				o.count("embedded_cases", 1)
				if (gerr != nil) != (werr != nil) || (gerr == nil && !bytes.Equal(gs, ws)) {
					o.violation("C15", "embedded-field resolution differs from encoding/json (decode)", map[string]string{"type": fmt.Sprint(ti), "doc": doc, "got": string(gs), "want": string(ws), "gerr": fmt.Sprint(gerr), "werr": fmt.Sprint(werr)})
				}
			}
		}
		v := m()
		rv := reflect.ValueOf(v).Elem()
		fillInts(rv, 1)
		g, gerr := gojson.Marshal(v)
		w, werr := stdjson.Marshal(v)
		if (gerr != nil) != (werr != nil) || !bytes.Equal(g, w) {
			o.violation("C15", "embedded-field resolution differs from encoding/json (encode)", map[string]string{"type": fmt.Sprint(ti), "got": string(g), "want": string(w)})
		}
	}
	_ = sort.Strings
}

func fillInts(v reflect.Value, n int) int {
	switch v.Kind() {
	case reflect.Int:
		if v.CanSet() {
			v.SetInt(int64(n))
			n++
		}
	case reflect.Struct:
		for i := 0; i < v.NumField(); i++ {
			n = fillInts(v.Field(i), n)
		}
	case reflect.Ptr:
		if v.CanSet() {
			v.Set(reflect.New(v.Type().Elem()))
			n = fillInts(v.Elem(), n)
		}
	}
	return n
}

// tryOptimize's eligibility: <= 16 names, each <= 64 bytes, ASCII only (so that
// strings.ToLower == toASCIILower), no two names equal after lower-casing
func c15Eligible(names []string) ([]string, bool) {
	if len(names) > 16 {
		return nil, false
	}
	seen := map[string]bool{}
	var out []string
	for _, n := range names {
		if !isASCII(n) || len(n) > 64 {
			return nil, false
		}
		l := strings.ToLower(n)
		if seen[l] {
			return nil, false
		}
		seen[l] = true
		out = append(out, l)
	}
	sort.Strings(out)
	return out, true
}

// ---------------------------------------------------------------------------
// Strata added by the generator audit (wave 6).  Every one of them is judged by encoding/json.  Where the judge
// is c15Check, its frozen classifier of recorded findings applies unchanged; the other strata build their inputs
// so that no recorded class can be met (no two names equal under case folding, keys change the case of ASCII
// letters only) and report every difference.

var c15Hex = [2]string{"0123456789abcdef", "0123456789ABCDEF"}

// \uXXXX for r (a surrogate pair above U+FFFF); hexCase 0 lower, 1 upper, 2 every digit at random
func c15EscRune(sb *strings.Builder, r rune, hexCase int, rng *rand.Rand) {
	units := []rune{r}
	if r > 0xffff {
		units = []rune{(r-0x10000)>>10 + 0xd800, (r-0x10000)&0x3ff + 0xdc00}
	}
	for _, u := range units {
		sb.WriteString(`\u`)
		for sh := 12; sh >= 0; sh -= 4 {
			hc := hexCase
			if hc == 2 {
				hc = rng.Intn(2)
			}
			sb.WriteByte(c15Hex[hc][(u>>uint(sh))&15])
		}
	}
}

// the text between the quotes for key: style 0 raw, 1 every character escaped (lower-case hex), 2 the same with
// upper-case hex, 3 a random subset escaped with hex digits of random case ('/' also as \/)
func c15Spell(key string, style int, rng *rand.Rand) string {
	if style == 0 {
		return jsonKeyRaw(key)
	}
	var sb strings.Builder
	for _, r := range key {
		switch style {
		case 1:
			c15EscRune(&sb, r, 0, rng)
		case 2:
			c15EscRune(&sb, r, 1, rng)
		default:
			k := rng.Intn(3)
			if k == 0 {
				sb.WriteString(jsonKeyRaw(string(r)))
			} else if k == 1 && r == '/' {
				sb.WriteString(`\/`)
			} else {
				c15EscRune(&sb, r, 2, rng)
			}
		}
	}
	return sb.String()
}

// c15CheckX is c15Check plus the rule that needs no classifier: a key that is a field's name byte for byte selects
// that field (exact match first), in every mode, whatever other names the struct has
func c15CheckX(o *Out, names []string, t reflect.Type, key, spelled string) {
	c15Check(o, names, t, key, spelled)
	for i, n := range names {
		if n != key {
			continue
		}
		doc := []byte(`{"` + spelled + `":7}`)
		for mode := 0; mode < 3; mode++ {
			o.count("exact_key_cases", 1)
			if got := c15Which(t, doc, mode); got != i {
				o.violation("C15", "a key equal to a field's name did not select that field", map[string]string{
					"names": strings.Join(names, ","), "doc": string(doc), "mode": fmt.Sprint(mode), "got": fmt.Sprint(got), "want": fmt.Sprint(i)})
			}
		}
		break
	}
}

// a key given by its spelling only (lone surrogate escapes have no Go string): the decoded key is encoding/json's
func c15CheckSpelled(o *Out, names []string, t reflect.Type, spelled string) {
	var key string
	if err := stdjson.Unmarshal([]byte(`"`+spelled+`"`), &key); err != nil {
		o.count("spelled_keys_not_json", 1)
		return
	}
	c15CheckX(o, names, t, key, spelled)
}

// the bitmap model on one raw key (eligible name sets, ASCII keys)
func c15EmitBitmap(o *Out, names, sorted []string, t reflect.Type, k string) {
	if k == "" || !isASCII(k) {
		return
	}
	got := c15Which(t, []byte(`{"`+jsonKeyRaw(k)+`":7}`), 0)
	obs := "N"
	if got >= 0 {
		lk := strings.ToLower(names[got])
		for si, sn := range sorted {
			if sn == lk {
				obs = fmt.Sprintf("F%d", si)
			}
		}
	} else if got < -1 {
		obs = "E"
	}
	o.emit("A", "c15.bitmap", [][]byte{[]byte(strings.Join(sorted, "\n")), []byte(k)}, []byte(obs), nil, false)
}

func c15ToggleASCII(s string, rng *rand.Rand, all bool) string {
	b := []byte(s)
	var pos []int
	for i, c := range b {
		if c >= 'a' && c <= 'z' || c >= 'A' && c <= 'Z' {
			pos = append(pos, i)
		}
	}
	if len(pos) == 0 {
		return s
	}
	if !all {
		pos = []int{pos[rng.Intn(len(pos))]}
	}
	for _, i := range pos {
		b[i] ^= 0x20
	}
	return string(b)
}

// ---- long names: the bitmap matcher at and around its limits (64 bytes, 8/9 and 16/17 names), names that share
// all but one position, prefix chains; keys one byte shorter, longer or different
func c15LongNames(o *Out) {
	r := o.rng
	thorough := o.tier == "thorough"
	lens := []int{3, 5, 8, 9, 16, 17, 31, 33, 62, 63, 64, 65, 80}
	reps := 1
	if thorough {
		reps = 8
	}
	const letters = "cdefghijklmnopqrstuvwxyz" // not in the base alphabet
	for rep := 0; rep < reps; rep++ {
		for _, L := range lens {
			for _, n := range []int{1, 2, 8, 9, 16, 17} {
				for kind := 0; kind < 4; kind++ {
					if n == 1 && kind > 0 {
						continue
					}
					// base of L bytes; every other time with one two-byte letter inside
					withE := kind != 3 && L >= 5 && r.Intn(2) == 0
					ePos := -1
					base := make([]byte, 0, L)
					if withE {
						ePos = 1 + r.Intn(L-4)
					}
					for len(base) < L {
						if len(base) == ePos {
							base = append(base, "é"...)
							continue
						}
						c := "ab1_"[r.Intn(4)]
						if c >= 'a' && r.Intn(3) == 0 {
							c -= 32
						}
						base = append(base, c)
					}
					var names []string
					switch kind {
					case 3: // prefix chain
						for i := 0; i < n && L-i >= 1; i++ {
							names = append(names, string(base[:L-i]))
						}
					default:
						p := L - 1
						if kind == 1 {
							p = 0
						} else if kind == 2 {
							p = r.Intn(L)
							for p == ePos || p == ePos+1 {
								p = r.Intn(L)
							}
						}
						off := r.Intn(len(letters))
						for i := 0; i < n; i++ {
							b := append([]byte{}, base...)
							b[p] = letters[(off+i)%len(letters)]
							if r.Intn(3) == 0 {
								b[p] -= 32
							}
							names = append(names, string(b))
						}
					}
					r.Shuffle(len(names), func(i, j int) { names[i], names[j] = names[j], names[i] })
					c15LongNameSet(o, names, L)
				}
			}
		}
	}
}

func c15LongNameSet(o *Out, names []string, L int) {
	r := o.rng
	t := c15Type(names)
	o.current(map[string]string{"property": "C15", "phase": "long names", "names": strings.Join(names, ",")})
	o.count("long_name_sets", 1)
	o.hist("long_name_bytes", fmt.Sprint(L))
	o.hist("long_name_fields", fmt.Sprint(len(names)))
	sorted, eligible := c15Eligible(names)
	if eligible {
		o.count("long_name_sets_bitmap_eligible", 1)
	}
	// up to four names: the first and the last in sorted order and two others
	pick := map[int]bool{}
	lo, hi := 0, 0
	for i := range names {
		if strings.ToLower(names[i]) < strings.ToLower(names[lo]) {
			lo = i
		}
		if strings.ToLower(names[i]) > strings.ToLower(names[hi]) {
			hi = i
		}
	}
	pick[lo], pick[hi] = true, true
	for len(pick) < 4 && len(pick) < len(names) {
		pick[r.Intn(len(names))] = true
	}
	var idx []int
	for i := range pick {
		idx = append(idx, i)
	}
	sort.Ints(idx)
	for _, i := range idx {
		nm := names[i]
		other := names[r.Intn(len(names))]
		keys := []string{nm, nm + "a", nm + nm[len(nm)-1:], c15ToggleASCII(nm, r, true), c15ToggleASCII(nm, r, false)}
		if cut := nm[:len(nm)-1]; cut != "" && utf8.ValidString(cut) {
			keys = append(keys, cut)
		}
		// one byte replaced
		b := []byte(nm)
		if p := r.Intn(len(b)); b[p] < 0x80 {
			b[p] = 'q'
			keys = append(keys, string(b))
		}
		// the head of one name and the tail of another
		if h := 1 + r.Intn(len(nm)); h <= len(other) && utf8.ValidString(nm[:h]+other[h:]) {
			keys = append(keys, nm[:h]+other[h:])
		}
		for _, k := range keys {
			o.hist("long_name_key_bytes_minus_name_bytes", fmt.Sprint(len(k)-len(nm)))
			for _, style := range []int{0, 1, 3} {
				c15CheckX(o, names, t, k, c15Spell(k, style, r))
			}
			if eligible {
				c15EmitBitmap(o, names, sorted, t, k)
			}
		}
	}
}

// ---- escape spellings: upper-case and mixed hex digits, every hex digit value, surrogate pairs for a letter above
// U+FFFF, a three-byte letter, \/ , the simple escapes and lone surrogates in keys that run on after a field's name
var c15WideAlphabet = []string{"a", "z", "J", "k", "m", "x", "/", "é", "\U0001d49c", "中", "<", "_", "7", "."}

func c15EscapeSpellings(o *Out) {
	r := o.rng
	nsets := 60
	if o.tier == "thorough" {
		nsets = 1500
	}
	tails := []string{"\n", "\"", "\\", "\t", "\b", "\f", "\r", "/", "\x00", " ", "\x7f", "\u00ad"}
	loneTails := []string{`\ud800`, `\udc00`, `\uD800a`, `\ud835x`, `\ud835\ud835\udc9c`, `\udbff\udfff`, `\udc9c\ud835`, `\ud835\u00e9`, `\ud800\"`, `\ud800\\`, `\ud800\u0061`, `\uD800\n`}
	fixed := [][]string{{"a/b", "a"}, {"\U0001d49c", "\U0001d49cz"}, {"é中", "é"}, {"/", "//"}, {"zJkmx7._"}}
	for si := 0; si < nsets+len(fixed); si++ {
		var names []string
		if si < len(fixed) {
			names = fixed[si]
		} else {
			n := 1 + r.Intn(17)
			if r.Intn(3) == 0 {
				n = []int{8, 9, 16, 17}[r.Intn(4)]
			}
			seen := map[string]bool{"-": true}
			for len(names) < n {
				c := ""
				for l := 1 + r.Intn(3); l > 0; l-- {
					c += c15WideAlphabet[r.Intn(len(c15WideAlphabet))]
				}
				if !seen[c] {
					seen[c] = true
					names = append(names, c)
				}
			}
		}
		t := c15Type(names)
		o.current(map[string]string{"property": "C15", "phase": "escape spellings", "names": strings.Join(names, ",")})
		o.count("escape_spelling_sets", 1)
		for rep := 0; rep < 4; rep++ {
			nm := names[r.Intn(len(names))]
			_, last := utf8.DecodeLastRuneInString(nm)
			keys := []string{nm, nm[:len(nm)-last], nm + c15WideAlphabet[r.Intn(len(c15WideAlphabet))], c15ToggleASCII(nm, r, false),
				nm + tails[r.Intn(len(tails))], nm[:len(nm)-last] + tails[r.Intn(len(tails))], tails[r.Intn(len(tails))] + nm}
			for _, k := range keys {
				for style := 0; style < 4; style++ {
					o.hist("escape_spelling_style", fmt.Sprint(style))
					c15CheckX(o, names, t, k, c15Spell(k, style, r))
				}
			}
			lt := loneTails[r.Intn(len(loneTails))]
			for _, sp := range []string{jsonKeyRaw(nm) + lt, jsonKeyRaw(nm[:len(nm)-last]) + lt, lt + jsonKeyRaw(nm), lt} {
				o.count("lone_surrogate_keys", 1)
				c15CheckSpelled(o, names, t, sp)
			}
		}
	}
}

// ---- documents with several members: duplicates in different spellings (the last one wins), unknown keys whose
// values hold the names again, white space around keys, fields of other types (pointer, struct with a matcher of its
// own), long padding (the stream window grows inside or before a key); every entry point; DisallowUnknownFields

// the value of a fresh t after decoding doc by one entry point, as encoding/json prints it; "E" error, "P" panic.
// modes: 0 Unmarshal, 1 Decoder (input in one piece), 2 Decoder (a byte per read), 3 Decoder (input cut at cuts),
// 4 UnmarshalNoEscape, 5 and 6: 1 and 2 with DisallowUnknownFields; 9 encoding/json, 10 with DisallowUnknownFields
func c15State(t reflect.Type, doc []byte, mode int, cuts []int) string {
	v := reflect.New(t)
	stream := func(rd io.Reader, disallow bool) error {
		d := gojson.NewDecoder(rd)
		if disallow {
			d.DisallowUnknownFields()
		}
		if err := d.Decode(v.Interface()); err != nil {
			return err
		}
		var rest interface{}
		if err := d.Decode(&rest); err != io.EOF {
			return fmt.Errorf("trailing data")
		}
		return nil
	}
	err := safeCall(func() error {
		switch mode {
		case 0:
			return gojson.Unmarshal(doc, v.Interface())
		case 1:
			return stream(bytes.NewReader(doc), false)
		case 2:
			return stream(iotest.OneByteReader(bytes.NewReader(doc)), false)
		case 3:
			return stream(&cutReader{b: doc, cuts: cuts, failAt: -1}, false)
		case 4:
			return gojson.UnmarshalNoEscape(doc, v.Interface())
		case 5:
			return stream(bytes.NewReader(doc), true)
		case 6:
			return stream(iotest.OneByteReader(bytes.NewReader(doc)), true)
		case 10:
			d := stdjson.NewDecoder(bytes.NewReader(doc))
			d.DisallowUnknownFields()
			return d.Decode(v.Interface())
		}
		return stdjson.Unmarshal(doc, v.Interface())
	})
	if err != nil {
		if strings.HasPrefix(err.Error(), "PANIC") {
			return "P " + err.Error()
		}
		return "E"
	}
	b, _ := stdjson.Marshal(v.Interface())
	return string(b)
}

// compares every entry point with encoding/json on one document
func c15CompareDoc(o *Out, what string, names []string, t reflect.Type, doc []byte, cuts []int, detail map[string]string) {
	want := c15State(t, doc, 9, nil)
	wantD := c15State(t, doc, 10, nil)
	if wantD == "E" && want != "E" {
		o.count(what+"_rejected_for_unknown_field", 1)
	}
	for _, mode := range []int{0, 1, 2, 3, 4, 5, 6} {
		w := want
		if mode >= 5 {
			w = wantD
		}
		got := c15State(t, doc, mode, cuts)
		o.count(what+"_cases", 1)
		if got != w {
			d := map[string]string{"names": strings.Join(names, ","), "type": t.String(), "doc": string(doc), "mode": fmt.Sprint(mode), "cuts": fmt.Sprint(cuts), "got": got, "want": w}
			for k, v := range detail {
				d[k] = v
			}
			o.violation("C15", "decoding a document ("+what+") leaves the struct in a different state than encoding/json does", d)
		}
	}
}

// n names from pool, no two equal under case folding (for these alphabets: equal after strings.ToLower)
func c15FoldDistinct(r *rand.Rand, pool []string, n int) []string {
	seen := map[string]bool{}
	var s []string
	for tries := 0; len(s) < n && tries < 50*n; tries++ {
		c := pool[r.Intn(len(pool))]
		if l := strings.ToLower(c); !seen[l] {
			seen[l] = true
			s = append(s, c)
		}
	}
	return s
}

var c15IntPtr = reflect.TypeOf((*int)(nil))

func c15MultiKey(o *Out) {
	r := o.rng
	n := 300
	if o.tier == "thorough" {
		n = 6000
	}
	pool := append(c15Names(2), "ab1", "aB_é", "a<b", "abababab", "abababa", strings.Repeat("aB", 20), "b1_", "éé")
	ws := []string{"", "", "", " ", "\n", "\t\r", "  \n "}
	for i := 0; i < n; i++ {
		nf := 1 + r.Intn(6)
		switch r.Intn(8) {
		case 0, 1:
			nf = 9 + r.Intn(8)
		case 2:
			nf = 17 + r.Intn(3)
		}
		names := c15FoldDistinct(r, pool, nf)
		// field types: int, *int, or a struct with names (and so a matcher) of its own
		fields := make([]reflect.StructField, len(names))
		subs := make([][]string, len(names))
		kinds := make([]int, len(names))
		for j, nm := range names {
			ft := reflect.TypeOf(0)
			switch r.Intn(10) {
			case 0:
				kinds[j], ft = 1, c15IntPtr
			case 1, 2:
				sn := 1 + r.Intn(3)
				if r.Intn(3) == 0 {
					sn = 8 + r.Intn(3)
				}
				kinds[j], subs[j] = 2, c15FoldDistinct(r, pool, sn)
				ft = c15Type(subs[j])
			}
			fields[j] = reflect.StructField{Name: fmt.Sprintf("F%d", j), Type: ft, Tag: reflect.StructTag(fmt.Sprintf(`json:%q`, nm))}
		}
		t := reflect.StructOf(fields)
		o.current(map[string]string{"property": "C15", "phase": "several members (documents drawn for this type)", "type": t.String(), "nth type": fmt.Sprint(i)})
		o.hist("multikey_fields", fmt.Sprint(len(names)))
		// which field a key selects: exact name, else the one name equal under folding
		resolve := func(ns []string, k string) int {
			for j, nm := range ns {
				if nm == k {
					return j
				}
			}
			for j, nm := range ns {
				if strings.EqualFold(nm, k) {
					return j
				}
			}
			return -1
		}
		genKey := func(ns []string) (string, string) {
			nm := ns[r.Intn(len(ns))]
			switch r.Intn(10) {
			case 0, 1, 2, 3:
				return nm, "exact"
			case 4, 5:
				return c15ToggleASCII(nm, r, r.Intn(2) == 0), "case changed"
			case 6:
				_, last := utf8.DecodeLastRuneInString(nm)
				return nm[:len(nm)-last], "prefix"
			case 7:
				return nm + c15NameAlphabet[r.Intn(4)], "extension"
			case 8:
				return pool[r.Intn(len(pool))], "any"
			}
			return "zz" + nm, "unknown"
		}
		for d := 0; d < 5; d++ {
			var sb strings.Builder
			sb.WriteString(ws[r.Intn(len(ws))] + "{")
			members := 1 + r.Intn(6)
			padded := ""
			for m := 0; m < members; m++ {
				if m > 0 {
					sb.WriteByte(',')
				}
				if r.Intn(12) == 0 {
					// the window of the stream decoder ends before, inside or after the next key
					sb.WriteString(strings.Repeat(" ", 440+r.Intn(90)))
					padded = "white space"
				} else if r.Intn(12) == 0 {
					sb.WriteString(`"zq":"` + strings.Repeat("x", 440+r.Intn(90)) + `",`)
					padded = "member"
				}
				key, kind := genKey(names)
				o.hist("multikey_key_kind", kind)
				sb.WriteString(ws[r.Intn(len(ws))] + `"` + c15Spell(key, r.Intn(4), r) + `"` + ws[r.Intn(len(ws))] + ":" + ws[r.Intn(len(ws))])
				j := resolve(names, key)
				val := strconv.Itoa(10 + m)
				switch {
				case j < 0:
					nm := jsonKeyRaw(names[r.Intn(len(names))])
					junk := []string{val, `"s"`, `"` + nm + `\":1,\"` + nm + `"`, `{"` + nm + `":99}`, `[{"` + nm + `":99}]`, "true", "null", "{}", "[]",
						`{"x":{"` + nm + `":[1,{"` + nm + `":2}]},"` + nm + `":3}`, `"\\"`, `"}"`, `[[],"]",{"a":"}"}]`}
					val = junk[r.Intn(len(junk))]
					o.hist("multikey_value", "of an unknown key")
				case kinds[j] == 1:
					if r.Intn(4) == 0 {
						val = "null"
					}
					o.hist("multikey_value", "for a pointer field")
				case kinds[j] == 2:
					if r.Intn(6) == 0 {
						val = "null"
						break
					}
					var in strings.Builder
					in.WriteString("{" + ws[r.Intn(len(ws))])
					for q, qn := 0, r.Intn(3); q < qn; q++ {
						if q > 0 {
							in.WriteByte(',')
						}
						sk, _ := genKey(subs[j])
						sv := strconv.Itoa(100 + 10*m + q)
						if resolve(subs[j], sk) < 0 && r.Intn(2) == 0 {
							sv = `{"` + jsonKeyRaw(subs[j][0]) + `":5}`
						}
						in.WriteString(`"` + c15Spell(sk, r.Intn(4), r) + `"` + ws[r.Intn(len(ws))] + ":" + sv + ws[r.Intn(len(ws))])
					}
					in.WriteString("}")
					val = in.String()
					o.hist("multikey_value", "for a struct field")
				default:
					o.hist("multikey_value", "for an int field")
				}
				sb.WriteString(val + ws[r.Intn(len(ws))])
			}
			sb.WriteString("}" + ws[r.Intn(len(ws))])
			doc := []byte(sb.String())
			var cuts []int
			for c := 0; c < 1+r.Intn(3) && len(doc) > 2; c++ {
				cuts = append(cuts, 1+r.Intn(len(doc)-1))
			}
			sort.Ints(cuts)
			o.hist("multikey_members", fmt.Sprint(members))
			if padded != "" {
				o.hist("multikey_padding", padded)
			}
			if len(doc) > 511 {
				o.count("multikey_docs_longer_than_first_window", 1)
			}
			c15CompareDoc(o, "multikey", names, t, doc, cuts, nil)
		}
	}
}

// ---- a key at every position relative to the end of the stream decoder's first window (511 bytes) and second
// (1023), reached by white space or by a member before it
func c15BufferBoundary(o *Out) {
	r := o.rng
	sets := [][]string{{"a", "ab"}, {"abcdefgh", "abcdefgx"}, {"é\U0001d49c", "é"},
		{"n0", "n1", "n2", "n3", "n4", "n5", "n6", "n7", "n8", "n8x"},
		{"m0", "m1", "m2", "m3", "m4", "m5", "m6", "m7", "m8", "m9", "ma", "mb", "mc", "md", "me", "mf", "mg"}}
	lims := []int{511}
	if o.tier == "thorough" {
		lims = []int{511, 1023, 2047}
	}
	for _, names := range sets {
		t := c15Type(names)
		last := names[len(names)-1]
		keys := []string{names[0], last, last + "y", last[:len(last)-1], c15ToggleASCII(last, r, true)}
		for _, k := range keys {
			for _, style := range []int{0, 1, 3} {
				spelled := c15Spell(k, style, r)
				member := `"` + spelled + `":7`
				o.current(map[string]string{"property": "C15", "phase": "window boundary (member moved across the end of the window)", "names": strings.Join(names, ","), "member": member})
				for _, lim := range lims {
					for start := lim - len(member) - 1; start <= lim+1; start++ {
						docs := []string{"{" + strings.Repeat(" ", start-1) + member + "}",
							`{"zq":"` + strings.Repeat("x", start-9) + `",` + member + "}",
							`{"` + jsonKeyRaw(names[0]) + `":1,` + strings.Repeat("\n", start-6-len(jsonKeyRaw(names[0]))) + member + "}"}
						for di, doc := range docs {
							o.hist("boundary_key_start_minus_window_end", fmt.Sprint(start-lim))
							c15CompareDoc(o, "boundary", names, t, []byte(doc), []int{lim, lim + 1}, map[string]string{"variant": fmt.Sprint(di)})
						}
					}
				}
			}
		}
	}
}

// ---- every character in a tag name: which characters make a tag name valid is a table in the library
// (runtime.isValidTag) that must agree with encoding/json's; an invalid name falls back to the Go name.  With the
// options omitempty / string / none after it, both directions, and the other encoder entry points.
func c15TagChars(o *Out) {
	var chars []rune
	for c := rune(0x20); c < 0x7f; c++ {
		chars = append(chars, c)
	}
	chars = append(chars, 'é', 'ß', '中', 0x1d49c, '٣', '²', 0xa0, 0x2028, '…', 'ª', 0x1f600, 0x301, 0xfffd, 0x7f,
		'\t', '\n', 0, 0x85, 'ǅ', 'ⅷ', 'Ⅰ', 'Ａ', 'ก', 'ẞ')
	for _, c := range chars {
		o.current(map[string]string{"property": "C15", "phase": "tag characters", "character": fmt.Sprintf("%U", c)})
		for ni, name := range []string{string(c), "a" + string(c), string(c) + "a", "a" + string(c) + "b"} {
			for _, opt := range []string{"", ",omitempty", ",string", ","} {
				if ni > 0 && opt != "" {
					continue // the options with the one-character name only
				}
				tag := reflect.StructTag(`json:` + strconv.Quote(name+opt))
				if got, _ := tag.Lookup("json"); got != name+opt {
					o.count("tag_not_representable", 1)
					continue
				}
				t := reflect.StructOf([]reflect.StructField{
					{Name: "F", Type: reflect.TypeOf(0), Tag: tag},
					{Name: "G", Type: reflect.TypeOf(0), Tag: `json:"g"`},
				})
				o.count("tag_char_types", 1)
				for _, fv := range []int64{0, 1} {
					v := reflect.New(t).Elem()
					v.Field(0).SetInt(fv)
					v.Field(1).SetInt(2)
					c15EncodeAll(o, string(tag), v.Interface())
				}
				keys := []string{name, "F", "f", "a", "ab"}
				if i := strings.IndexByte(name, ','); i >= 0 {
					keys = append(keys, name[:i])
				}
				for _, k := range keys {
					for _, val := range []string{"7", `"7"`} {
						doc := []byte(`{"` + jsonKeyRaw(k) + `":` + val + `,"g":3}`)
						want := c15State(t, doc, 9, nil)
						for mode := 0; mode < 3; mode++ {
							o.count("tag_char_decode_cases", 1)
							if got := c15State(t, doc, mode, nil); got != want {
								o.violation("C15", "a field with this tag is not selected by the keys encoding/json selects it by", map[string]string{
									"tag": string(tag), "doc": string(doc), "mode": fmt.Sprint(mode), "got": got, "want": want})
							}
						}
					}
				}
			}
		}
	}
}

// the members of v by every encoder entry point: Marshal, MarshalIndent, Encoder with and without HTML escaping,
// with and without indentation
func c15EncodeAll(o *Out, what string, v interface{}) {
	type res struct {
		b   []byte
		err error
	}
	enc := func(lib string, variant int) res {
		var out res
		if perr := safeCall(func() error {
			var buf bytes.Buffer
			switch {
			case variant == 0 && lib == "go":
				out.b, out.err = gojson.Marshal(v)
			case variant == 0:
				out.b, out.err = stdjson.Marshal(v)
			case variant == 1 && lib == "go":
				out.b, out.err = gojson.MarshalIndent(v, ">", "\t")
			case variant == 1:
				out.b, out.err = stdjson.MarshalIndent(v, ">", "\t")
			case lib == "go":
				e := gojson.NewEncoder(&buf)
				e.SetEscapeHTML(variant == 4)
				if variant >= 3 {
					e.SetIndent("", " ")
				}
				out.err = e.Encode(v)
				out.b = buf.Bytes()
			default:
				e := stdjson.NewEncoder(&buf)
				e.SetEscapeHTML(variant == 4)
				if variant >= 3 {
					e.SetIndent("", " ")
				}
				out.err = e.Encode(v)
				out.b = buf.Bytes()
			}
			return nil
		}); perr != nil {
			out.err = perr
		}
		return out
	}
	for variant := 0; variant < 5; variant++ {
		g, w := enc("go", variant), enc("std", variant)
		o.count("encode_entry_point_cases", 1)
		if (g.err != nil) != (w.err != nil) || (g.err == nil && !bytes.Equal(g.b, w.b)) {
			o.violation("C15", "member names/order differ from encoding/json", map[string]string{"value of": what, "entry": []string{"Marshal", "MarshalIndent", "Encoder no HTML escape", "Encoder no HTML escape, indent", "Encoder indent"}[variant],
				"got": string(g.b), "want": string(w.b), "gerr": fmt.Sprint(g.err), "werr": fmt.Sprint(w.err)})
		}
	}
}

// ---- the option DecodeFieldPriorityFirstWin: of several members that select the same field the first one counts.
// The keys still select fields by the same rules, so the reference is encoding/json on the document without the
// later members of each field (names pairwise different under case folding: which field a key selects is then the
// same for both libraries, recorded tie rule or not).
func c15FirstWin(o *Out) {
	r := o.rng
	n := 150
	if o.tier == "thorough" {
		n = 3000
	}
	pool := append(c15Names(2), "ab1", "aB_é", "abababab", "abababa")
	for i := 0; i < n; i++ {
		nf := 1 + r.Intn(5)
		if r.Intn(4) == 0 {
			nf = 9 + r.Intn(9)
		}
		names := c15FoldDistinct(r, pool, nf)
		t := c15Type(names)
		o.current(map[string]string{"property": "C15", "phase": "first member wins", "names": strings.Join(names, ",")})
		for d := 0; d < 4; d++ {
			var full, reduced []string
			seen := map[int]bool{}
			for m, members := 0, 1+r.Intn(7); m < members; m++ {
				nm := names[r.Intn(len(names))]
				key := nm
				switch r.Intn(6) {
				case 0, 1:
					key = c15ToggleASCII(nm, r, r.Intn(2) == 0)
				case 2:
					key = nm + "a"
				case 3:
					key = "q" + nm
				}
				member := `"` + c15Spell(key, r.Intn(4), r) + `":` + strconv.Itoa(10+m)
				full = append(full, member)
				j := -1
				for x, cand := range names {
					if cand == key {
						j = x
					}
				}
				for x, cand := range names {
					if j < 0 && strings.EqualFold(cand, key) {
						j = x
					}
				}
				if j >= 0 && seen[j] {
					o.count("first_win_members_that_must_not_count", 1)
					continue
				}
				if j >= 0 {
					seen[j] = true
				}
				reduced = append(reduced, member)
			}
			doc := []byte("{" + strings.Join(full, ",") + "}")
			want := c15State(t, []byte("{"+strings.Join(reduced, ",")+"}"), 9, nil)
			for mode := 0; mode < 3; mode++ {
				v := reflect.New(t)
				err := safeCall(func() error {
					switch mode {
					case 0:
						return gojson.UnmarshalWithOption(doc, v.Interface(), gojson.DecodeFieldPriorityFirstWin())
					case 1:
						return gojson.NewDecoder(bytes.NewReader(doc)).DecodeWithOption(v.Interface(), gojson.DecodeFieldPriorityFirstWin())
					}
					return gojson.NewDecoder(iotest.OneByteReader(bytes.NewReader(doc))).DecodeWithOption(v.Interface(), gojson.DecodeFieldPriorityFirstWin())
				})
				got := "E " + fmt.Sprint(err)
				if err == nil {
					b, _ := stdjson.Marshal(v.Interface())
					got = string(b)
				}
				o.count("first_win_cases", 1)
				if got != want {
					o.violation("C15", "with DecodeFieldPriorityFirstWin the struct is not what encoding/json makes of the document without the later members of each field", map[string]string{
						"names": strings.Join(names, ","), "doc": string(doc), "mode": fmt.Sprint(mode), "got": got, "want": want})
				}
			}
		}
	}
}
